"""F4f (C04.frame.stream.bodiless_sends_no_body): a route added with add_get() also answers HEAD (allow_head=True is the
default) with the same handler.  A streaming handler - resp = web.StreamResponse(); await resp.prepare(request);
await resp.write(b"DATA..."); await resp.write_eof() - then puts its body bytes on the wire behind the HEAD response head.
A response to HEAD has no body whatever its headers say (RFC 9112 6.3): the client takes those bytes for the beginning of the
NEXT response on the connection.  Same for a 204 / 304 StreamResponse that is written to.
exit 1 = reproduces."""
import asyncio, sys
import aiohttp
from aiohttp import web


async def main():
    async def stream(request):
        resp = web.StreamResponse()
        await resp.prepare(request)
        await resp.write(b"DATADATA")
        await resp.write_eof(b"TAIL")
        return resp

    async def nocontent(request):
        resp = web.StreamResponse(status=204)
        await resp.prepare(request)
        await resp.write(b"DATADATA")
        await resp.write_eof()
        return resp

    app = web.Application()
    app.router.add_get("/s", stream)
    app.router.add_get("/n", nocontent)
    runner = web.AppRunner(app)
    await runner.setup()
    site = web.TCPSite(runner, "127.0.0.1", 0)
    await site.start()
    port = site._server.sockets[0].getsockname()[1]
    bad = []
    for line in ("HEAD /s", "GET /n"):
        r, w = await asyncio.open_connection("127.0.0.1", port)
        w.write(f"{line} HTTP/1.1\r\nHost: x\r\n\r\n".encode())
        await w.drain()
        data = b""
        try:
            while True:
                chunk = await asyncio.wait_for(r.read(4096), 0.7)
                if not chunk:
                    break
                data += chunk
        except asyncio.TimeoutError:
            pass
        w.close()
        head, _, rest = data.partition(b"\r\n\r\n")
        print(f"  {line}: {head.split(chr(13).encode())[0].decode()} | bytes behind the header block: {rest!r}")
        if rest:
            bad.append(line)
    await runner.cleanup()
    print("aiohttp from", aiohttp.__file__, "| body bytes sent for a bodiless response:", bad or "none")
    return 1 if bad else 0


sys.exit(asyncio.run(main()))
