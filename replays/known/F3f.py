"""F3f (C03.limit.chunk_partial_line_not_early): a chunk-size line (with extension) or trailer field of exactly the limit is
accepted when it arrives in one read and refused with LineTooLong when the read boundary falls between its CR and LF.
exit 1 = reproduces."""
import asyncio, sys
import aiohttp
from aiohttp.http_parser import HttpRequestParserPy

class P:
    _reading_paused = False
    def pause_reading(self): pass
    def resume_reading(self, **kw): pass

loop = asyncio.new_event_loop()
def run(chunks, **kw):
    p = HttpRequestParserPy(P(), loop, 65536, **kw)
    out = []
    try:
        for c in chunks:
            msgs, up, tail = p.feed_data(c)
            out += [pl for m, pl in msgs]
        if out and out[0].exception() is not None:
            return "payload error " + type(out[0].exception()).__name__
        return "accepted" if out and out[0].is_eof() else "incomplete"
    except Exception as e:
        return type(e).__name__
head = b"POST / HTTP/1.1\r\nHost: a\r\nTransfer-Encoding: chunked\r\n\r\n"
bad = []
for lim in (32, 8190):
    size_line = b"5;x=" + b"e" * (lim - 4)
    whole = run([head + size_line + b"\r\nhello\r\n0\r\n\r\n"], max_line_size=lim, max_field_size=8190)
    cut = run([head + size_line + b"\r", b"\nhello\r\n0\r\n\r\n"], max_line_size=lim, max_field_size=8190)
    if whole != cut: bad.append(("chunk-size line", lim, whole, cut))
    trailer = b"X: " + b"t" * (lim - 3)
    whole = run([head + b"5\r\nhello\r\n0\r\n" + trailer + b"\r\n\r\n"], max_field_size=lim, max_line_size=8190)
    cut = run([head + b"5\r\nhello\r\n0\r\n" + trailer + b"\r", b"\n\r\n"], max_field_size=lim, max_line_size=8190)
    if whole != cut: bad.append(("trailer field", lim, whole, cut))
print("aiohttp from", aiohttp.__file__, "segmentation-dependent outcomes:", bad)
sys.exit(1 if bad else 0)
