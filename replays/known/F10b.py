"""F10b (C10.escape.http_feed_data): Content-Length with more than 4300 digits made int() raise ValueError out of
feed_data instead of an HTTP protocol error.  exit 1 = reproduces."""
import sys
from unittest import mock
import aiohttp
from aiohttp.http_parser import HttpRequestParserPy
from aiohttp.http_exceptions import HttpProcessingError
p = HttpRequestParserPy(mock.Mock(), mock.Mock(), 2**16)
try:
    p.feed_data(b"POST / HTTP/1.1\r\nHost: a\r\nContent-Length: " + b"1" * 5000 + b"\r\n\r\n")
    print("accepted"); rc = 0
except HttpProcessingError as e:
    print("HttpProcessingError", type(e).__name__); rc = 0
except Exception as e:
    print("ESCAPED", type(e).__name__, str(e)[:60]); rc = 1
print("aiohttp from", aiohttp.__file__); sys.exit(rc)
