"""F6c (C06.proto.should_close.equals_not_clean, parser-retained bytes): after a complete response the peer sends the beginning
of another message ('HTTP/1.1 200 OK\\r\\nContent-Le'), which is not a complete header block.  The bytes sit in the response
parser's private buffer (_tail / _lines); ResponseHandler.should_close does not look there, so the connection is released
to the pool as clean and reused for the next request although surplus bytes were received.  exit 1 = reused."""
import asyncio, sys
import aiohttp

async def main():
    conns = []

    async def serve(reader, writer):
        conns.append(writer)
        try:
            n = 0
            while True:
                await reader.readuntil(b"\r\n\r\n")
                n += 1
                writer.write(b"HTTP/1.1 200 OK\r\nContent-Length: 2\r\n\r\nok")
                if n == 1:
                    writer.write(b"HTTP/1.1 200 OK\r\nContent-Le")  # surplus: start of an unsolicited message
                await writer.drain()
        except (asyncio.IncompleteReadError, ConnectionError):
            pass

    server = await asyncio.start_server(serve, "127.0.0.1", 0)
    port = server.sockets[0].getsockname()[1]
    second = None
    async with aiohttp.ClientSession() as s:
        async with s.get(f"http://127.0.0.1:{port}/a") as r1:
            await r1.read()
        await asyncio.sleep(0.2)
        try:
            async with s.get(f"http://127.0.0.1:{port}/b", timeout=aiohttp.ClientTimeout(total=3)) as r2:
                second = (r2.status, await r2.read())
        except Exception as e:  # noqa: BLE001
            second = repr(e)
    n = len(conns)
    server.close()
    for w in conns:
        w.close()
    print("aiohttp from", aiohttp.__file__, "| TCP connections used:", n, "| second request:", second)
    return 1 if n == 1 else 0

sys.exit(asyncio.run(main()))
