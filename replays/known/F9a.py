"""F9a (C09.pause.no_stale_flag): a pause requested while a chunk is fed must not survive a return that asks for
more network input.  Scenario: chunked response, the read buffer crosses its high-water mark inside a chunk, the
segment ends in the middle of the next chunk-size line; the consumer drains everything (transport resumed); the rest
of the body arrives in ONE more segment -> it is parked in the parser and never delivered.  exit 1 = reproduces."""
import asyncio, sys
from unittest import mock
import aiohttp
from aiohttp.base_protocol import BaseProtocol
from aiohttp.http_parser import HttpResponseParserPy

async def main():
    loop = asyncio.get_running_loop()
    class P(BaseProtocol):
        def data_received(self, data):
            feed(data)
    proto = P(loop)
    tr = mock.Mock(); tr.is_closing.return_value = False
    proto.transport = tr
    parser = HttpResponseParserPy(proto, loop, 4, max_line_size=8190, max_field_size=8190)   # limit=4 -> high water 8
    proto._parser = parser
    out = {}
    def feed(data):
        msgs, up, tail = parser.feed_data(data)
        for m, payload in msgs:
            out["payload"] = payload
    seg1 = b"HTTP/1.1 200 OK\r\nTransfer-Encoding: chunked\r\n\r\n" + b"14\r\n" + b"x" * 20 + b"\r\n" + b"5"
    seg2 = b"\r\nhello\r\n0\r\n\r\n"
    feed(seg1)
    payload = out["payload"]
    got = await payload.readany()          # consumer drains the buffer; the transport is resumed
    feed(seg2)                             # the rest of the body: one segment
    try:
        rest = await asyncio.wait_for(payload.read(), 0.5)
        print("aiohttp from", aiohttp.__file__, "| body complete:", len(got) + len(rest), "bytes")
        return 0
    except asyncio.TimeoutError:
        print("aiohttp from", aiohttp.__file__, "| STALLED: got", len(got), "bytes, reader waits; parser paused flag stale;",
              "reading_paused =", proto._reading_paused)
        return 1
sys.exit(asyncio.run(main()))
