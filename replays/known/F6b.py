"""F6b (C06.write.cancel_before_body_closes): POST with expect100=True and a 1000-byte body against a peer that answers 200
without '100 Continue' and without reading the body: the writer task is cancelled while waiting for the 100, outside the
try-block that closes the connection, so the connection goes back to the pool although the announced body was never sent.
The next GET is written onto that connection, where the peer takes it for body bytes.  exit 1 = the connection is reused."""
import asyncio, sys
import aiohttp

async def main():
    conns = []

    async def serve(reader, writer):
        conns.append(writer)
        try:
            while True:
                head = await reader.readuntil(b"\r\n\r\n")
                # answer at once, never send 100 Continue, never read the announced body
                writer.write(b"HTTP/1.1 200 OK\r\nContent-Length: 2\r\n\r\nok")
                await writer.drain()
        except (asyncio.IncompleteReadError, ConnectionError):
            pass

    server = await asyncio.start_server(serve, "127.0.0.1", 0)
    port = server.sockets[0].getsockname()[1]
    async with aiohttp.ClientSession() as s:
        async with s.post(f"http://127.0.0.1:{port}/a", data=b"x" * 1000, expect100=True) as r1:
            await r1.read()
        await asyncio.sleep(0.1)
        try:
            async with s.get(f"http://127.0.0.1:{port}/b", timeout=aiohttp.ClientTimeout(total=3)) as r2:
                await r2.read()
        except Exception as e:  # noqa: BLE001
            print("second request:", repr(e))
    n = len(conns)
    server.close()
    for w in conns:
        w.close()
    print("aiohttp from", aiohttp.__file__, "| TCP connections used for POST(expect100, body unsent) + GET:", n)
    return 1 if n == 1 else 0

sys.exit(asyncio.run(main()))
