"""F7b (C07.wake.token_not_lost): a waiter that was woken and is then cancelled before it runs must pass the
wake-up on; otherwise another waiter waits forever although a slot is free.  exit 1 = defect reproduces."""
import asyncio, sys
from unittest import mock
import aiohttp
from aiohttp import connector as C
from aiohttp.client_reqrep import ConnectionKey

class Conn(C.BaseConnector):
    async def _create_connection(self, req, traces, timeout):
        p = mock.Mock(); p.is_connected.return_value = True; p.should_close = True; p.closed = None
        return p

def req():
    r = mock.Mock(); r.proxy = None
    r.connection_key = ConnectionKey("h", 80, False, True, None, None, None)
    return r

async def main():
    conn = Conn(limit=1)
    t = aiohttp.ClientTimeout()
    a = await conn.connect(req(), [], t)
    tb = asyncio.ensure_future(conn.connect(req(), [], t))
    tc = asyncio.ensure_future(conn.connect(req(), [], t))
    await asyncio.sleep(0.01)          # B and C are queued
    a.close()                          # frees the slot: B's future is completed
    tb.cancel()                        # ... but B is cancelled before it runs
    await asyncio.sleep(0.05)
    free = conn._available_connections(req().connection_key)
    stuck = not tc.done()
    print("aiohttp from", aiohttp.__file__, "| free slots:", free, "| C still waiting:", stuck)
    tc.cancel(); await asyncio.gather(tb, tc, return_exceptions=True); await conn.close()
    return 1 if (stuck and free > 0) else 0
sys.exit(asyncio.run(main()))
