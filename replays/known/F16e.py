"""F16e (C16.accept.session_cookie_forgets_old_deadline): 'Set-Cookie: a=1; Max-Age=10', later 'Set-Cookie: a=2' (a session cookie)
for the same key: the deadline of the replaced cookie stayed in the expiry table, so the session cookie was deleted 10 s
after the first one was set - an RFC 6265 store keeps it.  exit 1 = the session cookie is gone after 11 s."""
import sys, time
from http.cookies import SimpleCookie
from unittest import mock
import aiohttp
from aiohttp import CookieJar
from yarl import URL

jar = CookieJar()
t0 = time.time()
with mock.patch("time.time", return_value=t0):
    c = SimpleCookie(); c.load("a=1; Max-Age=10"); jar.update_cookies(c, URL("http://example.com/"))
    c = SimpleCookie(); c.load("a=2"); jar.update_cookies(c, URL("http://example.com/"))
with mock.patch("time.time", return_value=t0 + 11):
    sent = jar.filter_cookies(URL("http://example.com/"))
print("aiohttp from", aiohttp.__file__, "| 11 s later the session cookie a=2 is", "sent" if "a" in sent else "gone")
sys.exit(0 if "a" in sent else 1)
