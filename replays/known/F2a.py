"""F2a (C02 keep-alive agreement): HTTP/1.0 keep-alive request answered by a streamed response without Content-Length.
StreamResponse._prepare_headers decides `keep_alive = False` in a LOCAL after self._keep_alive was already stored, so
the response is sent without 'Connection: keep-alive' (the client must read until EOF) while the server still regards
the connection as keep-alive and does not close it: the body never ends until the keep-alive timeout.
exit 1 = defect reproduces."""
import asyncio, sys, time
import aiohttp
from aiohttp import web

async def handler(request):
    resp = web.StreamResponse()
    await resp.prepare(request)
    await resp.write(b"streamed")
    await resp.write_eof()
    return resp

async def main():
    app = web.Application(); app.router.add_get("/", handler)
    runner = web.AppRunner(app, keepalive_timeout=30); await runner.setup()
    site = web.TCPSite(runner, "127.0.0.1", 0); await site.start()
    port = site._server.sockets[0].getsockname()[1]
    r, w = await asyncio.open_connection("127.0.0.1", port)
    w.write(b"GET / HTTP/1.0\r\nConnection: keep-alive\r\n\r\n"); await w.drain()
    t0 = time.monotonic(); data = b""; eof = False
    try:
        while True:
            c = await asyncio.wait_for(r.read(4096), 1.5)
            if not c:
                eof = True; break
            data += c
    except asyncio.TimeoutError:
        pass
    head = data.split(b"\r\n\r\n")[0].lower()
    print("aiohttp from", aiohttp.__file__, "keep-alive header:", b"connection: keep-alive" in head,
          "content-length:", b"content-length" in head, "chunked:", b"chunked" in head, "server closed within 1.5s:", eof)
    w.close()
    await runner.cleanup()
    delimited = (b"content-length" in head) or (b"chunked" in head)
    return 1 if (not delimited and not eof) else 0

sys.exit(asyncio.run(main()))
