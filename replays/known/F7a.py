"""F7a (C07.limit.reuse_respects_limit): with limit=1 an idle pooled connection must not be taken into use while
another connection is in use (2 in use > limit).  exit 1 = defect reproduces."""
import asyncio, sys
from unittest import mock
import aiohttp
from aiohttp import connector as C
from aiohttp.client_reqrep import ConnectionKey

class Conn(C.BaseConnector):
    async def _create_connection(self, req, traces, timeout):
        p = mock.Mock(); p.is_connected.return_value = True; p.should_close = False; p.closed = None
        return p

def req(host):
    r = mock.Mock(); r.proxy = None
    r.connection_key = ConnectionKey(host, 80, False, True, None, None, None)
    return r

async def main():
    conn = Conn(limit=1)
    t = aiohttp.ClientTimeout()
    a = await conn.connect(req("A"), [], t)
    a.release()                                   # idle connection to A stays in the pool
    b = await conn.connect(req("B"), [], t)       # 1 in use (limit reached)
    ta = asyncio.ensure_future(conn.connect(req("A"), [], t))
    await asyncio.sleep(0.05)
    in_use = len(conn._acquired)
    print("aiohttp from", aiohttp.__file__, "| limit=1 in use:", in_use, "| second request served:", ta.done())
    ta.cancel(); await asyncio.gather(ta, return_exceptions=True); await conn.close()
    return 1 if in_use > 1 else 0
sys.exit(asyncio.run(main()))
