"""F18d (C18.cancel.response_not_handed_out_is_dropped): ClientSession(connector=TCPConnector(limit=1)) with a TraceConfig whose
on_request_end callback awaits; the caller's task is cancelled while _request is inside that callback (the response head
has arrived, its body is still streaming).  _request's `except BaseException` arm closed the timer and the request body but
not the response it had obtained and never hands out: its connection stayed in connector._acquired for good, the pool slot
was never freed, and the next request of the session waited for a slot for ever.
exit 1 = reproduces."""
import asyncio, gc, sys
import aiohttp
from aiohttp import web


async def main():
    async def slow_body(request):
        resp = web.StreamResponse()
        await resp.prepare(request)
        await resp.write(b"x" * 10)
        await asyncio.sleep(30)
        return resp

    async def quick(request):
        return web.Response(text="ok")

    app = web.Application()
    app.router.add_get("/", slow_body)
    app.router.add_get("/q", quick)
    runner = web.AppRunner(app, shutdown_timeout=0.1)
    await runner.setup()
    site = web.TCPSite(runner, "127.0.0.1", 0)
    await site.start()
    port = site._server.sockets[0].getsockname()[1]
    first = [True]

    async def on_end(session, ctx, params):
        if first[0]:
            first[0] = False
            await asyncio.sleep(5)

    tc = aiohttp.TraceConfig()
    tc.on_request_end.append(on_end)
    conn = aiohttp.TCPConnector(limit=1)
    async with aiohttp.ClientSession(connector=conn, trace_configs=[tc]) as s:
        t = asyncio.ensure_future(s.get(f"http://127.0.0.1:{port}/"))
        await asyncio.sleep(0.5)
        t.cancel()
        try:
            await t
        except asyncio.CancelledError:
            pass
        del t
        gc.collect()
        await asyncio.sleep(0.1)
        acquired = len(conn._acquired)
        try:
            r = await asyncio.wait_for(s.get(f"http://127.0.0.1:{port}/q"), 2)
            second = r.status
        except Exception as e:  # noqa: BLE001
            second = repr(e)
    await runner.cleanup()
    print("aiohttp from", aiohttp.__file__)
    print("  connections still acquired after the cancelled request:", acquired)
    print("  next request of the session (limit=1):", second)
    return 0 if (acquired == 0 and second == 200) else 1


sys.exit(asyncio.run(main()))
