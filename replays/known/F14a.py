"""F14a (C14.bounded.roundtrip): a dynamic resource whose literal part needs percent-encoding ('/a b/{x}', '/é/{x}')
never matches: its pattern and index key are built from the re-quoted text ('/a%20b') while resolution matches and
walks the decoded path_safe ('/a b'), so url_for() output resolves to 404.  exit 1 = defect reproduces."""
import asyncio, sys
import aiohttp
from aiohttp import web
from aiohttp.test_utils import make_mocked_request

async def h(request):
    return web.Response()

async def main():
    app = web.Application()
    res = app.router.add_resource("/a b/{x}")
    res.add_route("GET", h)
    url = res.url_for(x="v")
    mi = await app.router.resolve(make_mocked_request("GET", str(url)))
    print("aiohttp from", aiohttp.__file__, "url_for ->", url, "resolve ->", mi.http_exception or dict(mi))
    return 1 if mi.http_exception is not None else 0

sys.exit(asyncio.run(main()))
