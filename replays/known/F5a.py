"""F5a (C10.escape.lazy_url_forced / C05): 'GET http://a:99999/ HTTP/1.1' - the out-of-range port is detected by yarl only
when host/port are first read, i.e. in Request.__init__ inside RequestHandler.start(), outside the try block: the
connection task dies, no response is sent and the connection stays open.  exit 1 = defect reproduces."""
import asyncio, sys
import aiohttp
from aiohttp import web

async def h(r):
    return web.Response(text="ok")

async def main():
    app = web.Application(); app.router.add_get("/", h)
    runner = web.AppRunner(app); await runner.setup()
    site = web.TCPSite(runner, "127.0.0.1", 0); await site.start()
    port = site._server.sockets[0].getsockname()[1]
    r, w = await asyncio.open_connection("127.0.0.1", port)
    w.write(b"GET http://a:99999/ HTTP/1.1\r\nHost: a\r\n\r\n"); await w.drain()
    try:
        data = await asyncio.wait_for(r.read(2000), 1.5)
    except asyncio.TimeoutError:
        data = b""
    print("aiohttp from", aiohttp.__file__, "answer:", data[:40] or "<none within 1.5 s>")
    w.close(); await runner.cleanup()
    return 0 if data.startswith(b"HTTP/1.0 400") or data.startswith(b"HTTP/1.1 400") else 1

sys.exit(asyncio.run(main()))
