"""F15b (C15.range.if_range_validator_must_match): a static file is requested with `Range: bytes=2-` and an If-Range that
carries an entity-tag which is NOT the file's current ETag (the client resumes a download of an older version).  RFC 9110
13.1.5: the validator does not match, the Range is ignored and the whole current file is sent with 200.  aiohttp parses
If-Range as a date only (BaseRequest.if_range -> None for an entity-tag) and answers 206 with a slice of the NEW file, which
the client appends to its old prefix.  Control: the current ETag -> 206; an unparsable validator matches nothing -> 200.
exit 1 = reproduces."""
import asyncio, os, sys, tempfile
import aiohttp
from aiohttp import web


async def main():
    d = tempfile.mkdtemp()
    p = os.path.join(d, "f.bin")
    with open(p, "wb") as f:
        f.write(b"0123456789")

    async def h(request):
        return web.FileResponse(p)

    app = web.Application()
    app.router.add_get("/", h)
    runner = web.AppRunner(app)
    await runner.setup()
    site = web.TCPSite(runner, "127.0.0.1", 0)
    await site.start()
    port = site._server.sockets[0].getsockname()[1]
    url = f"http://127.0.0.1:{port}/"
    got = {}
    async with aiohttp.ClientSession() as s:
        async with s.get(url) as r:
            etag = r.headers["ETag"]
        for name, v in (("stale_etag", '"deadbeef-a"'), ("current_etag", etag), ("weak_current", "W/" + etag),
                        ("garbage", "yesterday")):
            async with s.get(url, headers={"Range": "bytes=2-", "If-Range": v}) as r:
                got[name] = (r.status, await r.read())
    await runner.cleanup()
    os.unlink(p)
    os.rmdir(d)
    print("aiohttp from", aiohttp.__file__, "| current ETag", etag)
    for k, v in got.items():
        print(f"  If-Range {k:13s} -> {v}")
    full = (200, b"0123456789")
    want = {"stale_etag": full, "current_etag": (206, b"23456789"), "weak_current": full, "garbage": full}
    bad = [k for k in want if got[k] != want[k]]
    print("differs from RFC 9110 13.1.5:", bad or "nothing")
    return 1 if bad else 0


sys.exit(asyncio.run(main()))
