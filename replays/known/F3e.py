"""F3e (C03.limit.partial_line_not_early): a start line / field line of exactly the limit is accepted when it arrives in
one read and refused with LineTooLong when the read boundary falls between its CR and LF.  exit 1 = reproduces."""
import asyncio, sys
import aiohttp
from aiohttp.http_parser import HttpRequestParserPy
class P:
    _reading_paused = False
    def pause_reading(self): pass
    def resume_reading(self): pass
loop = asyncio.new_event_loop()
def run(chunks, **kw):
    p = HttpRequestParserPy(P(), loop, 65536, **kw)
    out = []
    try:
        for c in chunks:
            msgs, up, tail = p.feed_data(c)
            out += ["accepted(len(path)=%d)" % len(m.path) for m, _ in msgs]
    except Exception as e:
        out.append(type(e).__name__)
    return out
bad = []
for lim in (20, 64, 8190):
    line = b"GET /" + b"a" * (lim - len("GET / HTTP/1.1")) + b" HTTP/1.1"
    assert len(line) == lim
    rest = b"Host: a\r\n\r\n"
    whole = run([line + b"\r\n" + rest], max_line_size=lim)
    cut = run([line + b"\r", b"\n" + rest], max_line_size=lim)
    if whole != cut: bad.append(("start line", lim, whole, cut))
    fld = b"X: " + b"b" * (lim - 3)
    msg = b"GET / HTTP/1.1\r\nHost: a\r\n"
    whole = run([msg + fld + b"\r\n\r\n"], max_field_size=lim, max_line_size=8190)
    cut = run([msg + fld + b"\r", b"\n\r\n"], max_field_size=lim, max_line_size=8190)
    if whole != cut: bad.append(("field", lim, whole, cut))
print("aiohttp from", aiohttp.__file__, "segmentation-dependent outcomes:", bad)
sys.exit(1 if bad else 0)
