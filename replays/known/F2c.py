"""F2c (C02.encoding.canonical): a response with 'Content-Encoding: GZip' (content codings are case-insensitive, RFC 9110
8.4.1) was recognised as compressed but handed to the decoder under the name 'GZip', which it treats as deflate: the client
fails with ClientPayloadError instead of delivering the body.  exit 1 = reproduces."""
import asyncio, gzip, sys
import aiohttp
from aiohttp import web

async def main():
    async def g(request):
        return web.Response(body=gzip.compress(b"hello"), headers={"Content-Encoding": "GZip"})
    app = web.Application()
    app.router.add_get("/gz", g)
    runner = web.AppRunner(app)
    await runner.setup()
    site = web.TCPSite(runner, "127.0.0.1", 0)
    await site.start()
    port = site._server.sockets[0].getsockname()[1]
    async with aiohttp.ClientSession() as s:
        try:
            async with s.get(f"http://127.0.0.1:{port}/gz") as resp:
                got = await resp.read()
        except Exception as e:  # noqa: BLE001
            got = e
    await runner.cleanup()
    print("aiohttp from", aiohttp.__file__, "| client received:", repr(got))
    return 0 if got == b"hello" else 1

sys.exit(asyncio.run(main()))
