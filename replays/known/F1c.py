"""F1c (C01.chunk.ext.no_bare_cr): a chunk extension holding a bare CR ('5;a\\rb\\r\\nhello\\r\\n0\\r\\n\\r\\n') was accepted - only LF
was looked for in the extension - although chunk-ext is tokens / quoted strings and a bare CR is a control byte a front
proxy may read as a line end.  exit 1 = accepted."""
import asyncio, sys
import aiohttp
from aiohttp.http_parser import HttpRequestParserPy

class P:
    _reading_paused = False
    def pause_reading(self): pass
    def resume_reading(self, **kw): pass

loop = asyncio.new_event_loop()
p = HttpRequestParserPy(P(), loop, 65536)
try:
    msgs, _, _ = p.feed_data(b"POST / HTTP/1.1\r\nHost: a\r\nTransfer-Encoding: chunked\r\n\r\n5;a\rb\r\nhello\r\n0\r\n\r\n")
    pl = msgs[0][1]
    res = "accepted" if pl.is_eof() and pl.exception() is None else f"payload error {pl.exception()!r}"
except Exception as e:
    res = f"refused: {type(e).__name__}"
print("aiohttp from", aiohttp.__file__, "| chunk-size line b'5;a\\rb':", res)
sys.exit(1 if res == "accepted" else 0)
