"""F3a/F3b/F3c (C03): HttpParser.feed_data outcome depended on how the stream was cut.
usage: F3.py a|b|c|d     exit 1 = the two segmentations disagree (defect reproduces)."""
import sys
from unittest import mock
import aiohttp
from aiohttp.http_parser import HttpRequestParserPy
from aiohttp.http_exceptions import HttpProcessingError

def run(segments, **kw):
    p = HttpRequestParserPy(mock.Mock(), mock.Mock(), 2**16, **kw)
    n = 0
    try:
        for s in segments:
            msgs, _, _ = p.feed_data(s)
            n += len(msgs)
        return ("ok", n)
    except HttpProcessingError as e:
        return ("rejected", type(e).__name__)

which = sys.argv[1]
if which == "a":    # limit of a field line after a cut between lines
    kw = dict(max_line_size=100, max_field_size=50)
    head, field = b"GET / HTTP/1.1\r\nHost: a\r\n", b"X: " + b"v" * 77 + b"\r\n\r\n"
    r1, r2 = run([head + field], **kw), run([head, field], **kw)
elif which == "b":  # partial field line longer than max_line_size but within max_field_size
    kw = dict(max_line_size=50, max_field_size=200)
    msg = b"GET / HTTP/1.1\r\nHost: a\r\nX: " + b"v" * 80 + b"\r\n\r\n"
    cut = len(msg) - 10
    r1, r2 = run([msg], **kw), run([msg[:cut], msg[cut:]], **kw)
elif which == "d":  # start line of a pipelined second request: limit must be max_line_size, not max_field_size
    kw = dict(max_line_size=50, max_field_size=200)
    m1 = b"GET / HTTP/1.1\r\nHost: a\r\n\r\n"
    m2 = b"GET /" + b"p" * 90 + b" HTTP/1.1\r\nHost: a\r\n\r\n"
    r1, r2 = run([m1 + m2], **kw), run([m1, m2], **kw)
else:               # data after Connection: close
    m1 = b"GET / HTTP/1.1\r\nHost: a\r\nConnection: close\r\n\r\n"
    m2 = b"GET /2 HTTP/1.1\r\nHost: a\r\n\r\n"
    r1, r2 = run([m1 + m2]), run([m1, m2])
print("aiohttp from", aiohttp.__file__, "| one read:", r1, "| two reads:", r2)
sys.exit(1 if r1 != r2 else 0)
