"""F9b (C09.deflate.eof_only_if_complete): a gzip (also br / zstd) body cut off in the middle of its compressed stream, with
consistent framing (Content-Length equals the truncated length), is delivered to the application as a complete body: read()
returns a prefix of the content and no error.  Only Content-Encoding: deflate reports the truncation.
exit 1 = a truncated gzip body is delivered without error."""
import asyncio, gzip, sys
import aiohttp
from aiohttp import web

CONTENT = bytes(range(256)) * 40

async def main():
    comp = gzip.compress(CONTENT)
    cut = comp[: len(comp) // 2]

    async def serve(reader, writer):
        await reader.readuntil(b"\r\n\r\n")
        writer.write(b"HTTP/1.1 200 OK\r\nContent-Encoding: gzip\r\nContent-Length: %d\r\nConnection: close\r\n\r\n" % len(cut) + cut)
        await writer.drain()
        writer.close()

    server = await asyncio.start_server(serve, "127.0.0.1", 0)
    port = server.sockets[0].getsockname()[1]
    async with aiohttp.ClientSession() as s:
        try:
            async with s.get(f"http://127.0.0.1:{port}/") as r:
                body = await r.read()
            got = f"{len(body)} bytes delivered without error (content has {len(CONTENT)})"
            bad = len(body) != len(CONTENT)
        except aiohttp.ClientPayloadError as e:
            got, bad = f"ClientPayloadError: {e}", False
    server.close()
    print("aiohttp from", aiohttp.__file__, "| gzip body cut to half its compressed length:", got)
    return 1 if bad else 0

sys.exit(asyncio.run(main()))
