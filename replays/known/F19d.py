"""F19d (C19.names.semicolons_round_trip): a form field whose name holds two semicolons - FormData().add_field('a;b;c', 'v') -
is written by aiohttp as  Content-Disposition: form-data; name="a;b;c".  parse_content_disposition split the header at every
';' and put back together exactly ONE such piece ('just one case fix'), so for two or more it gave up: warning
BadContentDispositionHeader, no parameters - the part comes back with name None (request.post() drops the field).
One semicolon ('a;b') worked.
exit 1 = reproduces."""
import asyncio, sys, warnings
import aiohttp
from aiohttp import web


async def main():
    seen = {}

    async def h(request):
        with warnings.catch_warnings():
            warnings.simplefilter("ignore")
            data = await request.post()
        seen["fields"] = sorted(data.keys())
        return web.Response(text="ok")

    app = web.Application()
    app.router.add_post("/", h)
    runner = web.AppRunner(app)
    await runner.setup()
    site = web.TCPSite(runner, "127.0.0.1", 0)
    await site.start()
    port = site._server.sockets[0].getsockname()[1]
    fd = aiohttp.FormData()
    fd.add_field("a;b", "one", filename="f1.txt")
    fd.add_field("a;b;c", "two", filename="f2.txt")
    async with aiohttp.ClientSession() as s:
        async with s.post(f"http://127.0.0.1:{port}/", data=fd) as r:
            status = r.status
    await runner.cleanup()
    print("aiohttp from", aiohttp.__file__)
    print("  fields sent: ['a;b', 'a;b;c'] | status", status, "| fields the server read:", seen.get("fields"))
    return 0 if seen.get("fields") == ["a;b", "a;b;c"] else 1


sys.exit(asyncio.run(main()))
