"""F16a / F16b (C16): native witnesses against the real CookieJar.  exit 1 = defect reproduces.
  a: a cookie with Path=/foo// was filed under /foo (rstrip) and sent to /foo/bar, which it does not path-match
  b: host-only cookie n on /a; a second n on /b expires -> the shared (domain, n) host-only flag was dropped and the
     /a cookie started to be sent to sub.example.com
  c: a cookie re-set with Expires at the epoch (timestamp 0) was not deleted"""
import asyncio, sys
from http.cookies import SimpleCookie
from yarl import URL
import aiohttp
from aiohttp import CookieJar

async def main(which):
    jar = CookieJar()
    if which == "a":
        jar.update_cookies(SimpleCookie("a=1; Path=/foo//"), URL("http://example.com/"))
        sent = [m.key for m in jar.filter_cookies(URL("http://example.com/foo/bar")).values()]
    elif which == "c":
        jar.update_cookies(SimpleCookie("n=v"), URL("http://example.com/"))
        jar.update_cookies(SimpleCookie("n=deleted; Expires=Thu, 01 Jan 1970 00:00:00 GMT"), URL("http://example.com/"))
        sent = [m.key for m in jar.filter_cookies(URL("http://example.com/")).values()]
    else:
        jar.update_cookies(SimpleCookie("n=A; Path=/a"), URL("http://example.com/"))
        jar.update_cookies(SimpleCookie("n=B; Path=/b; Max-Age=0"), URL("http://example.com/"))
        sent = [m.key for m in jar.filter_cookies(URL("http://sub.example.com/a")).values()]
    print("aiohttp from", aiohttp.__file__, "sent:", sent)
    return 1 if sent else 0

sys.exit(asyncio.run(main(sys.argv[1])))
