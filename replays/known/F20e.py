"""F20e (C20.runner.connections_closed_even_if_hook_raises): an on_shutdown handler that raises makes BaseRunner.cleanup skip
Server.shutdown: a request being handled is neither drained nor cancelled and its connection stays open after cleanup() has
ended (with the handler's exception) and the runner has forgotten its server.  exit 1 = reproduces."""
import asyncio, sys
import aiohttp
from aiohttp import web

async def main():
    started = asyncio.Event()
    state = {}

    async def slow(request):
        started.set()
        try:
            await asyncio.sleep(30)
        except asyncio.CancelledError:
            state["cancelled"] = True
            raise
        return web.Response(text="late")

    async def bad_hook(app):
        raise RuntimeError("shutdown hook failed")

    app = web.Application()
    app.router.add_get("/", slow)
    app.on_shutdown.append(bad_hook)
    runner = web.AppRunner(app, shutdown_timeout=0.2)
    await runner.setup()
    site = web.TCPSite(runner, "127.0.0.1", 0)
    await site.start()
    port = site._server.sockets[0].getsockname()[1]
    r, w = await asyncio.open_connection("127.0.0.1", port)
    w.write(b"GET / HTTP/1.1\r\nHost: a\r\n\r\n")
    await w.drain()
    await asyncio.wait_for(started.wait(), 5)
    server = runner.server
    try:
        await runner.cleanup()
        raised = None
    except RuntimeError as e:
        raised = e
    await asyncio.sleep(0.1)
    open_conns = len(server.connections)
    print("aiohttp from", aiohttp.__file__, "| cleanup raised:", repr(raised), "| handler cancelled:", state.get("cancelled", False),
          "| connections still open after cleanup:", open_conns)
    for c in list(server.connections):
        c.force_close()
    w.close()
    return 1 if open_conns else 0

sys.exit(asyncio.run(main()))
