"""F20a-d (C20): native witnesses against the real aiohttp.web.  exit 1 = defect reproduces.
  a: run_app: a failing cleanup context leaves the earlier, started one without cleanup (setup() was outside try/finally)
  b: a failing cleanup context of the parent aborts on_cleanup.send before the sub-application's contexts are exited
  c: a raising on_shutdown handler makes AppRunner.cleanup() skip the application's cleanup contexts
  d: a sub-application context that fails to start leaves the sub-application's earlier, started context un-exited"""
import asyncio, sys
import aiohttp
from aiohttp import web

log = []

def mk(name, fail_exit=False, fail_enter=False):
    async def ctx(app):
        if fail_enter:
            raise RuntimeError("enter " + name)
        log.append(f"start {name}")
        yield
        log.append(f"exit {name}")
        if fail_exit:
            raise RuntimeError("exit " + name)
    return ctx

async def bad_shutdown(app):
    raise RuntimeError("shutdown handler")

async def main(which):
    parent, sub = web.Application(), web.Application()
    need = "exit S1"
    if which == "a":
        parent.cleanup_ctx.append(mk("C1")); parent.cleanup_ctx.append(mk("C2", fail_enter=True)); need = "exit C1"
        try:
            await web._run_app(parent, print=None)
        except RuntimeError as e:
            log.append(f"run_app raised {e!r}")
        print("aiohttp from", aiohttp.__file__, log)
        return 0 if need in log else 1
    if which == "b":
        parent.cleanup_ctx.append(mk("P1", fail_exit=True)); sub.cleanup_ctx.append(mk("S1"))
        parent.add_subapp("/sub", sub)
    elif which == "c":
        parent.cleanup_ctx.append(mk("C")); parent.on_shutdown.append(bad_shutdown); need = "exit C"
    else:
        parent.cleanup_ctx.append(mk("P1")); sub.cleanup_ctx.append(mk("S1")); sub.cleanup_ctx.append(mk("S2", fail_enter=True))
        parent.add_subapp("/sub", sub)
    r = web.AppRunner(parent)
    try:
        await r.setup()
    except Exception as e:
        log.append(f"setup raised {e!r}")
    try:
        await r.cleanup()
    except Exception as e:
        log.append(f"cleanup raised {e!r}")
    print("aiohttp from", aiohttp.__file__, log)
    return 0 if need in log else 1

sys.exit(asyncio.run(main(sys.argv[1])))
