"""F1a (C01.body.request_framed_by_headers_not_method): 'HEAD / HTTP/1.1 ... Content-Length: 5\r\n\r\nhello' followed by
'GET /x ...': the request parser treated the HEAD request as bodyless and parsed 'helloGET /x ...' as the next request
(method 'HELLOGET'), i.e. body bytes were interpreted as a request.  exit 1 = defect reproduces."""
import asyncio, sys
import aiohttp
from aiohttp.http_parser import HttpRequestParserPy

class P:
    _reading_paused = False
    def pause_reading(self): pass
    def resume_reading(self): pass

loop = asyncio.new_event_loop()
p = HttpRequestParserPy(P(), loop, 65536)
got = []
try:
    for chunk in (b"HEAD / HTTP/1.1\r\nHost: a\r\nContent-Length: 5\r\n\r\nhello", b"GET /x HTTP/1.1\r\nHost: a\r\n\r\n"):
        msgs, up, tail = p.feed_data(chunk)
        got += [(m.method, m.path) for m, _ in msgs]
except Exception as e:
    got.append(type(e).__name__)
print("aiohttp from", aiohttp.__file__, "requests seen:", got)
sys.exit(0 if got == [("HEAD", "/"), ("GET", "/x")] else 1)
