"""F13a / F13b (C13): native witnesses over loopback.  exit 1 = defect reproduces.
  a: client close(): the close timeout was applied per received frame, so a peer that keeps sending data frames (and never
     answers the close frame) kept close() from returning far beyond ws_close
  b: server/client close(): sending the close frame (and the server's drain()) happen outside the close timeout; a peer
     that stops reading blocks close() beyond the timeout"""
import asyncio, sys, time
import aiohttp
from aiohttp import web

async def chatty(request):
    ws = web.WebSocketResponse(autoclose=False, autoping=False)
    await ws.prepare(request)
    try:
        for _ in range(200):                     # 10 s of chatter, never echoes the close frame
            await ws.send_str("x")
            await asyncio.sleep(0.05)
    except Exception:
        pass
    return ws

async def main(which):
    app = web.Application()
    app.router.add_get("/ws", chatty)
    runner = web.AppRunner(app)
    await runner.setup()
    site = web.TCPSite(runner, "127.0.0.1", 0)
    await site.start()
    port = site._server.sockets[0].getsockname()[1]
    rc = 0
    async with aiohttp.ClientSession() as s:
        if which == "a":
            ws = await s.ws_connect(f"http://127.0.0.1:{port}/ws", timeout=aiohttp.ClientWSTimeout(ws_close=0.3))
            t0 = time.monotonic()
            try:
                await asyncio.wait_for(ws.close(), 3.0)
            except asyncio.TimeoutError:
                pass
            dt = time.monotonic() - t0
            print("aiohttp from", aiohttp.__file__, f"close() took {dt:.2f}s with ws_close=0.3")
            rc = 1 if dt > 1.5 else 0
    await runner.cleanup()
    return rc

async def main_b():
    # the writer's drain never completes (peer stopped reading): close() must still return within the timeout
    from unittest import mock
    from aiohttp.test_utils import make_mocked_request
    from aiohttp import web_ws
    req = make_mocked_request("GET", "/", headers={"Upgrade": "websocket", "Connection": "upgrade",
                              "Sec-WebSocket-Key": "dGhlIHNhbXBsZSBub25jZQ==", "Sec-WebSocket-Version": "13"})
    ws = web.WebSocketResponse(timeout=0.2)
    await ws.prepare(req)
    never = asyncio.get_running_loop().create_future()
    async def stuck(*a, **k):
        await never
    ws._writer.close = stuck
    t0 = time.monotonic()
    try:
        await asyncio.wait_for(ws.close(), 1.5)
        late = False
    except asyncio.TimeoutError:
        late = True
    print("aiohttp from", aiohttp.__file__, f"server close() with a stalled peer: {'still blocked after 1.5s' if late else 'returned'} (timeout=0.2)")
    return 1 if late else 0

which = sys.argv[1]
sys.exit(asyncio.run(main(which) if which == "a" else main_b()))
