"""F10c (C10.error_message_encodable.payload): a chunked request whose chunk-size line holds a non-ASCII byte
('POST ... Transfer-Encoding: chunked\\r\\n\\r\\n\\xff\\r\\n' in one read).  The parser raises TransferEncodingError whose message is
the line decoded with surrogateescape ('\\udcff'); rendering it into the 400 response raises UnicodeEncodeError inside the
connection task: the client gets an empty reply instead of the 400.  exit 1 = no HTTP response came back."""
import asyncio, sys
import aiohttp
from aiohttp import web

async def main():
    async def h(request):
        return web.Response(text="ok")
    app = web.Application()
    app.router.add_route("*", "/{t:.*}", h)
    runner = web.AppRunner(app)
    await runner.setup()
    site = web.TCPSite(runner, "127.0.0.1", 0)
    await site.start()
    port = site._server.sockets[0].getsockname()[1]
    r, w = await asyncio.open_connection("127.0.0.1", port)
    w.write(b"POST / HTTP/1.1\r\nHost: a\r\nTransfer-Encoding: chunked\r\n\r\n\xff\r\n")
    await w.drain()
    try:
        data = await asyncio.wait_for(r.read(65536), 2)
    except asyncio.TimeoutError:
        data = b"<timeout>"
    w.close()
    await runner.cleanup()
    print("aiohttp from", aiohttp.__file__, "| reply:", data[:40])
    return 0 if data.startswith(b"HTTP/1.") and b" 400 " in data[:20] else 1

sys.exit(asyncio.run(main()))
