"""F6d (C06.data.switching_protocols_is_never_reused): the peer answers a plain GET with
'HTTP/1.1 101 Switching Protocols\\r\\n\\r\\n' (no Connection: upgrade / Upgrade header - or an Upgrade token the client does
not support).  The response parser does not regard the message as an upgrade, the 101 is a complete bodiless response, the
connection is released as clean and POOLED - although the peer has left HTTP on it.  The next request of the session is
written onto that connection (here the peer then answers with bytes of its 'new protocol': the request fails; a peer that
answers HTTP-looking bytes gets them delivered as the response).
exit 1 = reproduces."""
import asyncio, sys
import aiohttp


async def main():
    conns = []

    async def on_conn(reader, writer):
        n = len(conns)
        conns.append(0)
        try:
            while True:
                head = await reader.readuntil(b"\r\n\r\n")
                conns[n] += 1
                if conns[n] == 1 and n == 0:
                    writer.write(b"HTTP/1.1 101 Switching Protocols\r\n\r\n")
                elif n == 0:
                    writer.write(b"\x00\x01NEWPROTO\x02\x03")      # the peer speaks something else now
                else:
                    writer.write(b"HTTP/1.1 200 OK\r\nContent-Length: 2\r\n\r\nok")
                await writer.drain()
        except (Exception, asyncio.CancelledError):  # noqa: BLE001
            pass
        finally:
            writer.close()

    server = await asyncio.start_server(on_conn, "127.0.0.1", 0)
    port = server.sockets[0].getsockname()[1]
    out = []
    async with aiohttp.ClientSession(timeout=aiohttp.ClientTimeout(total=2)) as s:
        for i in range(2):
            try:
                async with s.get(f"http://127.0.0.1:{port}/") as r:
                    out.append((r.status, await r.read()))
            except Exception as e:  # noqa: BLE001
                out.append(type(e).__name__)
    server.close()
    print("aiohttp from", aiohttp.__file__)
    print("  requests per server connection:", conns, "| client saw:", out)
    reused = conns and conns[0] > 1
    return 1 if reused else 0


sys.exit(asyncio.run(main()))
