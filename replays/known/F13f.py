"""F13f (C13.writer.no_data_frame_after_close.large_frames): with permessage-deflate negotiated, a send larger than 16 KiB is
compressed in the executor (WebSocketWriter._send_compressed_frame_async_locked).  If another task calls ws.close() meanwhile,
the CLOSE frame goes out at once (control frames take no lock); when the compression finishes the DATA frame is written behind
it: 'no data frame follows the close frame' is violated on the wire (RFC 6455 5.5.1) and send_bytes() returns normally.
Server handler: create_task(ws.send_bytes(400000 random bytes)); await sleep(0); await ws.close().  The client reads frames
with autoclose=False and looks at what follows the CLOSE frame.
exit 1 = reproduces."""
import asyncio, os, sys
import aiohttp
from aiohttp import web

seen = {}


async def handler(request):
    ws = web.WebSocketResponse(timeout=1.0)
    await ws.prepare(request)
    big = os.urandom(400_000)

    async def sender():
        try:
            await ws.send_bytes(big)
            seen["send"] = "returned normally"
        except Exception as e:  # noqa: BLE001
            seen["send"] = "raised " + type(e).__name__

    t = asyncio.create_task(sender())
    await asyncio.sleep(0)   # the sender is now waiting for the executor
    await ws.close(code=1000)
    await t
    return ws


async def main():
    app = web.Application()
    app.router.add_get("/", handler)
    runner = web.AppRunner(app)
    await runner.setup()
    site = web.TCPSite(runner, "127.0.0.1", 0)
    await site.start()
    port = site._server.sockets[0].getsockname()[1]
    seq = []
    async with aiohttp.ClientSession() as s:
        ws = await s.ws_connect(f"http://127.0.0.1:{port}/", compress=15, autoclose=False, max_msg_size=0)
        seen["compress"] = ws.compress
        while len(seq) < 6:
            m = await ws.receive()
            seq.append(m.type.name)
            if m.type in (aiohttp.WSMsgType.CLOSED, aiohttp.WSMsgType.ERROR):
                break
            if m.type is aiohttp.WSMsgType.CLOSE:
                try:
                    nxt = await asyncio.wait_for(ws._reader.read(), 0.7)
                    seq.append("AFTER-CLOSE:" + nxt.type.name)
                except Exception as e:  # noqa: BLE001
                    seq.append("nothing after CLOSE (" + type(e).__name__ + ")")
                await ws.close()
                break
    await runner.cleanup()
    print("aiohttp from", aiohttp.__file__, "| negotiated compress =", seen.get("compress"))
    print("  server send_bytes:", seen.get("send"))
    print("  client saw       :", seq)
    bad = any(x.startswith("AFTER-CLOSE:") and x.split(":")[1] in ("BINARY", "TEXT", "CONTINUATION") for x in seq)
    return 1 if bad else 0


sys.exit(asyncio.run(main()))
