"""F15a (C15.range.parse.suffix): 'Range: bytes=-0' is an unsatisfiable suffix range (RFC 7233 2.1) -> must not be
served as 206 whole file.  exit 1 = defect reproduces."""
import sys
from unittest import mock
import aiohttp
from aiohttp.test_utils import make_mocked_request
req = make_mocked_request("GET", "/", headers={"Range": "bytes=-0"})
try:
    r = req.http_range
    print("aiohttp from", aiohttp.__file__, "http_range ->", r); sys.exit(1)
except ValueError as e:
    print("aiohttp from", aiohttp.__file__, "ValueError:", e); sys.exit(0)
