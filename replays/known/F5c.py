"""F5c (C10.escape.lazy_url_forced): 'GET http://xn--a/ HTTP/1.1' (a host that is not valid IDNA) passed the parser - the
authority had been forced with url.raw_host only - and BaseRequest.__init__ then raised UnicodeError from url.host inside
RequestHandler.start, outside any handler: no response is ever sent and the connection stays open.
exit 1 = the server does not answer (defect reproduces)."""
import asyncio, sys
import aiohttp
from aiohttp import web

async def main():
    async def h(request):
        return web.Response(text="ok")
    app = web.Application()
    app.router.add_route("*", "/{tail:.*}", h)
    runner = web.AppRunner(app)
    await runner.setup()
    site = web.TCPSite(runner, "127.0.0.1", 0)
    await site.start()
    port = site._server.sockets[0].getsockname()[1]
    bad = []
    for req in (b"GET http://xn--a/ HTTP/1.1\r\nHost: a\r\n\r\n", b"CONNECT xn--a:80 HTTP/1.1\r\nHost: a\r\n\r\n"):
        r, w = await asyncio.open_connection("127.0.0.1", port)
        w.write(req)
        await w.drain()
        try:
            data = await asyncio.wait_for(r.read(65536), 2)
        except asyncio.TimeoutError:
            data = None
        if not data or not data.startswith(b"HTTP/1."):
            bad.append((req.split(b"\r\n")[0], "no answer within 2 s" if data is None else data[:40]))
        w.close()
    await runner.cleanup()
    print("aiohttp from", aiohttp.__file__, "| unanswered requests:", bad)
    return 1 if bad else 0

sys.exit(asyncio.run(main()))
