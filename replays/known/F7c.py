"""F7c (C07.leak.*_connection_not_orphaned): a tracing callback that raises while a connection is being handed out
(on_connection_reuseconn for a pooled connection, on_connection_create_end for a fresh one) makes the connector forget
the open connection: it is removed from _acquired, not returned to _conns and not closed, so the socket stays open and
connector.close() never closes it.  exit 1 = an established connection is still open after session.close()."""
import asyncio, sys
import aiohttp

async def main():
    server_side = []
    saw_eof = set()

    async def serve(reader, writer):
        server_side.append(writer)
        try:
            while True:
                await reader.readuntil(b"\r\n\r\n")
                writer.write(b"HTTP/1.1 200 OK\r\nContent-Length: 2\r\n\r\nok")
                await writer.drain()
        except (asyncio.IncompleteReadError, ConnectionError):
            saw_eof.add(writer)  # the client closed its end

    server = await asyncio.start_server(serve, "127.0.0.1", 0)
    port = server.sockets[0].getsockname()[1]
    out = {}
    for hook in ("on_connection_reuseconn", "on_connection_create_end"):
        server_side.clear()
        boom = {"armed": False}

        async def cb(session, ctx, params):
            if boom["armed"]:
                raise RuntimeError("tracing backend is down")

        tc = aiohttp.TraceConfig()
        getattr(tc, hook).append(cb)
        s = aiohttp.ClientSession(trace_configs=[tc])
        if hook == "on_connection_reuseconn":
            async with s.get(f"http://127.0.0.1:{port}/a") as r:
                await r.read()
        boom["armed"] = True
        try:
            async with s.get(f"http://127.0.0.1:{port}/b") as r:
                await r.read()
        except RuntimeError:
            pass
        await s.close()
        await asyncio.sleep(0.2)
        # a closed client socket makes the server's reader hit EOF
        still_open = [w for w in server_side if w not in saw_eof]
        out[hook] = len(still_open)
        for w in server_side:
            w.close()
    server.close()
    print("aiohttp from", aiohttp.__file__, "| connections still open after session.close():", out)
    return 1 if any(out.values()) else 0

sys.exit(asyncio.run(main()))
