"""F05b (C05.data.upgrade_tail_has_a_consumer): an Upgrade request WITH a body, whose handler answers with a normal response
before the body has arrived.  When the body completes, the parser switches the connection to 'upgraded' although the request was
already answered (upgrade declined); the pipelined next request is set aside as upgraded-protocol data that nobody reads:
never answered, connection left open.  The same bytes in one segment give two responses.  exit 1 = reproduces."""
import asyncio, sys
import aiohttp
from aiohttp import web

async def main():
    seen = []
    async def h(request):
        seen.append(request.path)
        return web.Response(text="ok")
    app = web.Application()
    app.router.add_route("*", "/{t:.*}", h)
    runner = web.AppRunner(app)
    await runner.setup()
    site = web.TCPSite(runner, "127.0.0.1", 0)
    await site.start()
    port = site._server.sockets[0].getsockname()[1]
    head = b"POST /up HTTP/1.1\r\nHost: x\r\nConnection: Upgrade\r\nUpgrade: websocket\r\nContent-Length: 5\r\n\r\n"
    nxt = b"GET /next HTTP/1.1\r\nHost: x\r\n\r\n"
    res = {}
    for name, segs in (("one segment", [head + b"hello" + nxt]), ("two segments", [head, b"hello" + nxt])):
        seen.clear()
        r, w = await asyncio.open_connection("127.0.0.1", port)
        for sgm in segs:
            w.write(sgm)
            await w.drain()
            await asyncio.sleep(0.3)
        data = b""
        try:
            while True:
                c = await asyncio.wait_for(r.read(65536), 1)
                if not c:
                    break
                data += c
        except asyncio.TimeoutError:
            pass
        res[name] = (list(seen), data.count(b"HTTP/1.1 "), r.at_eof())
        w.close()
    await runner.cleanup()
    print("aiohttp from", aiohttp.__file__, "| (handlers run, responses, closed):", res)
    a, b = res["one segment"], res["two segments"]
    return 1 if (a[1] != b[1] and not b[2]) else 0

sys.exit(asyncio.run(main()))
