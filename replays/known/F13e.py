"""F13e (C13.client.receive.timeout_is_not_an_end): ClientWebSocketResponse.receive(timeout=...) that times out on a healthy,
open session stored close_code = 1006 (ABNORMAL_CLOSURE) and re-raised.  The session stays usable, but the next close()
takes the stored code for 'the peer's CLOSE has been received', sends its CLOSE frame and drops the connection without waiting
for the peer's answer: a perfectly clean session reports close_code 1006 and the server sees the connection vanish
mid-handshake.  Control: the same session without the timed-out poll reports the peer's code (1000).
exit 1 = reproduces."""
import asyncio, sys
import aiohttp
from aiohttp import web


async def main():
    server_saw = []

    async def h(request):
        ws = web.WebSocketResponse()
        await ws.prepare(request)
        async for msg in ws:
            pass
        server_saw.append(ws.close_code)
        return ws

    app = web.Application()
    app.router.add_get("/", h)
    runner = web.AppRunner(app)
    await runner.setup()
    site = web.TCPSite(runner, "127.0.0.1", 0)
    await site.start()
    port = site._server.sockets[0].getsockname()[1]
    out = {}
    async with aiohttp.ClientSession() as s:
        for poll in (False, True):
            ws = await s.ws_connect(f"http://127.0.0.1:{port}/")
            open_code = None
            if poll:
                try:
                    await ws.receive(timeout=0.05)
                except asyncio.TimeoutError:
                    pass
                open_code = ws.close_code
                assert not ws.closed
            await ws.close()
            out[poll] = (open_code, ws.close_code)
    await asyncio.sleep(0.1)
    await runner.cleanup()
    print("aiohttp from", aiohttp.__file__)
    print("  without a timed-out poll: close_code after close() =", out[False][1])
    print("  with a timed-out poll   : close_code while still open =", out[True][0], "| after close() =", out[True][1])
    print("  server side close codes :", server_saw)
    return 1 if (out[True][0] is not None or out[True][1] != out[False][1]) else 0


sys.exit(asyncio.run(main()))
