"""F13d (C13.client.close.no_second_wait_after_peer_close): the peer sends a CLOSE frame without payload (b'\\x88\\x00', legal:
'no status code', reported as code 0) and then waits for the TCP close.  receive() answers through autoclose -> close(),
whose test `if self._close_code:` takes code 0 for 'no CLOSE received yet': the client echoes CLOSE and then waits the
whole ws_close timeout for another CLOSE, ending with close_code 1006 and a TimeoutError although the handshake was clean.
exit 1 = close took (about) the whole timeout."""
import asyncio, base64, hashlib, sys, time
import aiohttp

async def main():
    async def serve(reader, writer):
        head = await reader.readuntil(b"\r\n\r\n")
        key = [l.split(b":", 1)[1].strip() for l in head.split(b"\r\n") if l.lower().startswith(b"sec-websocket-key")][0]
        acc = base64.b64encode(hashlib.sha1(key + b"258EAFA5-E914-47DA-95CA-C5AB0DC85B11").digest())
        writer.write(b"HTTP/1.1 101 Switching Protocols\r\nUpgrade: websocket\r\nConnection: Upgrade\r\nSec-WebSocket-Accept: " + acc + b"\r\n\r\n")
        writer.write(b"\x88\x00")  # CLOSE, empty payload
        await writer.drain()
        try:
            await asyncio.wait_for(reader.read(100), 10)  # the client's CLOSE echo; then wait for the TCP close
            await asyncio.wait_for(reader.read(100), 10)
        except asyncio.TimeoutError:
            pass
        writer.close()

    server = await asyncio.start_server(serve, "127.0.0.1", 0)
    port = server.sockets[0].getsockname()[1]
    async with aiohttp.ClientSession() as s:
        ws = await s.ws_connect(f"http://127.0.0.1:{port}/", timeout=aiohttp.ClientWSTimeout(ws_close=2.0))
        t0 = time.monotonic()
        msg = await ws.receive()
        await ws.close()
        dt = time.monotonic() - t0
        res = (msg.type.name, ws.close_code, repr(ws.exception()), round(dt, 2))
    server.close()
    print("aiohttp from", aiohttp.__file__, "| (message, close_code, exception, seconds until closed):", res)
    return 1 if dt > 1.5 else 0

sys.exit(asyncio.run(main()))
