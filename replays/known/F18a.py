"""F18a (C18.sockread.interim_response_keeps_the_timer): ClientTimeout(total=None, sock_read=0.5); the server answers
'HTTP/1.1 102 Processing' and then stalls.  ResponseHandler.data_received drops the sock_read timer for the interim
message's empty payload and nothing re-arms it while ClientResponse.start waits for the final response: the request
never times out.  exit 1 = still pending after 3 s."""
import asyncio, sys
import aiohttp

async def main():
    async def serve(reader, writer):
        await reader.readuntil(b"\r\n\r\n")
        writer.write(b"HTTP/1.1 102 Processing\r\n\r\n")
        await writer.drain()
        await asyncio.sleep(30)

    server = await asyncio.start_server(serve, "127.0.0.1", 0)
    port = server.sockets[0].getsockname()[1]
    res = None
    async with aiohttp.ClientSession(timeout=aiohttp.ClientTimeout(total=None, sock_read=0.5)) as s:
        async def go():
            async with s.get(f"http://127.0.0.1:{port}/") as r:
                return await r.read()
        task = asyncio.ensure_future(go())
        done, pending = await asyncio.wait([task], timeout=3)
        if pending:
            res = "still pending after 3 s (sock_read=0.5)"
            task.cancel()
            try:
                await task
            except BaseException:
                pass
        else:
            res = repr(task.exception())
    server.close()
    print("aiohttp from", aiohttp.__file__, "|", res)
    return 1 if res.startswith("still pending") else 0

sys.exit(asyncio.run(main()))
