"""F6a (C06): bytes that arrive on a pooled, idle connection are parsed by the previous request's parser and queued;
BaseConnector._get() re-issues the connection (it checks only is_connected() and age, not protocol.should_close), and
the next request on it is answered from the stale queue.  exit 1 = defect reproduces."""
import asyncio, sys
import aiohttp

R1 = b"HTTP/1.1 200 OK\r\nContent-Length: 3\r\n\r\none"
STALE = b"HTTP/1.1 200 OK\r\nContent-Length: 5\r\n\r\nSTALE"
R2 = b"HTTP/1.1 200 OK\r\nContent-Length: 3\r\n\r\ntwo"

async def handle(reader, writer):
    n = 0
    try:
        while True:
            line = await reader.readuntil(b"\r\n\r\n")
            n += 1
            if n == 1:
                writer.write(R1); await writer.drain()
                await asyncio.sleep(0.2)
                writer.write(STALE); await writer.drain()      # unsolicited, while the connection idles in the pool
            else:
                writer.write(R2); await writer.drain()
    except Exception:
        pass

async def main():
    srv = await asyncio.start_server(handle, "127.0.0.1", 0)
    port = srv.sockets[0].getsockname()[1]
    async with aiohttp.ClientSession() as s:
        async with s.get(f"http://127.0.0.1:{port}/a") as r:
            b1 = await r.read()
        await asyncio.sleep(0.5)
        async with s.get(f"http://127.0.0.1:{port}/b") as r:
            b2 = await r.read()
    srv.close()
    print("aiohttp from", aiohttp.__file__, "first:", b1, "second:", b2)
    return 1 if b2 == b"STALE" else 0

sys.exit(asyncio.run(main()))
