"""F2e (C02.frame.resp.not_both / writer_agrees_with_headers): a handler returns
web.Response(body=b"abcd", headers={"Transfer-Encoding": "chunked"}).  aiohttp frames a Response with a known body by its
length: the response went out with BOTH 'Transfer-Encoding: chunked' (the application's header) and 'Content-Length: 4',
followed by the raw body 'abcd'.  A receiver must let Transfer-Encoding win (RFC 9112 6.3) and reads 'abcd' as a chunk-size
line: the response cannot be parsed, or - on an intermediary that prefers Content-Length - is framed differently by the two.
exit 1 = reproduces."""
import asyncio, sys
import aiohttp
from aiohttp import web


async def main():
    async def h(request):
        return web.Response(body=b"abcd", headers={"Transfer-Encoding": "chunked"})

    app = web.Application()
    app.router.add_get("/", h)
    runner = web.AppRunner(app)
    await runner.setup()
    site = web.TCPSite(runner, "127.0.0.1", 0)
    await site.start()
    port = site._server.sockets[0].getsockname()[1]
    r, w = await asyncio.open_connection("127.0.0.1", port)
    w.write(b"GET / HTTP/1.1\r\nHost: x\r\n\r\n")
    await w.drain()
    raw = await asyncio.wait_for(r.read(4096), 2)
    w.close()
    async with aiohttp.ClientSession() as s:
        try:
            async with s.get(f"http://127.0.0.1:{port}/") as resp:
                got = (resp.status, await resp.read())
        except Exception as e:  # noqa: BLE001
            got = repr(e)
    await runner.cleanup()
    head, _, body = raw.partition(b"\r\n\r\n")
    names = [l.split(b":")[0].lower() for l in head.split(b"\r\n")[1:]]
    both = b"transfer-encoding" in names and b"content-length" in names
    print("aiohttp from", aiohttp.__file__)
    print("  framing headers:", [l.decode() for l in head.split(b"\r\n")[1:] if l.split(b":")[0].lower() in (b"transfer-encoding", b"content-length")], "| body on the wire:", body)
    print("  aiohttp's own client reads:", got)
    return 1 if (both or got != (200, b"abcd")) else 0


sys.exit(asyncio.run(main()))
