"""F2b (C02.compress.bodiless_gets_no_compressor): a StreamResponse with enable_compression() answering HEAD, or with status 204,
is followed on the wire by the compressor's end-of-stream bytes (8 bytes zlib / 20 bytes gzip) after the header block; the
client reads them as the start of the next response on the keep-alive connection.  exit 1 = reproduces."""
import asyncio, sys
import aiohttp
from aiohttp import web

async def main():
    async def h(request):
        r = web.StreamResponse(status=204 if request.path == "/204" else 200)
        r.enable_compression()
        await r.prepare(request)
        await r.write_eof()
        return r
    app = web.Application()
    app.router.add_route("*", "/{p:.*}", h)
    runner = web.AppRunner(app)
    await runner.setup()
    site = web.TCPSite(runner, "127.0.0.1", 0)
    await site.start()
    port = site._server.sockets[0].getsockname()[1]
    bad = []
    for req in (b"GET /204 HTTP/1.1\r\nHost: a\r\nAccept-Encoding: gzip\r\n\r\n",
                b"HEAD /head HTTP/1.1\r\nHost: a\r\nAccept-Encoding: deflate\r\n\r\n"):
        r, w = await asyncio.open_connection("127.0.0.1", port)
        w.write(req)
        await w.drain()
        await asyncio.sleep(0.3)
        data = await asyncio.wait_for(r.read(65536), 2)
        head, _, rest = data.partition(b"\r\n\r\n")
        if rest:
            bad.append((req.split(b"\r\n")[0], head.split(b"\r\n")[0], rest))
        w.close()
    await runner.cleanup()
    print("aiohttp from", aiohttp.__file__, "| bytes after the header block of a bodiless response:", bad)
    return 1 if bad else 0

sys.exit(asyncio.run(main()))
