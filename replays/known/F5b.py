"""F5b (C10.escape.lazy_url_forced): 'CONNECT a:99999 HTTP/1.1' is accepted by HttpRequestParser.parse_message because
yarl's URL.build(authority=..., encoded=True) validates the authority lazily; the ValueError then surfaces when the URL is
first used.  exit 1 = the parser accepts the target and the message URL raises on use (defect reproduces)."""
import asyncio, sys
import aiohttp
from aiohttp.http_parser import HttpRequestParserPy
from aiohttp.http_exceptions import HttpProcessingError

class P:
    _reading_paused = False
    def pause_reading(self): pass
    def resume_reading(self, **kw): pass

loop = asyncio.new_event_loop()
bad = []
for target in (b"a:99999", b"a:http"):
    p = HttpRequestParserPy(P(), loop, 65536)
    try:
        msgs, _, _ = p.feed_data(b"CONNECT " + target + b" HTTP/1.1\r\nHost: a\r\n\r\n")
    except HttpProcessingError as e:
        continue
    try:
        msgs[0][0].url.port
    except ValueError as e:
        bad.append((target, "accepted; url.port raises ValueError: %s" % e))
print("aiohttp from", aiohttp.__file__, bad)
sys.exit(1 if bad else 0)
