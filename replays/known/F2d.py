"""F2d (C02.compress.response.total): web.Response() without a body + enable_compression(): Response._do_start_compression hits
`assert self._body is not None`; the handler's response is lost and the client gets ServerDisconnectedError instead of the 200.
exit 1 = reproduces."""
import asyncio, sys
import aiohttp
from aiohttp import web

async def main():
    async def h(request):
        r = web.Response(status=200)
        r.enable_compression()
        return r
    app = web.Application()
    app.router.add_get("/", h)
    runner = web.AppRunner(app)
    await runner.setup()
    site = web.TCPSite(runner, "127.0.0.1", 0)
    await site.start()
    port = site._server.sockets[0].getsockname()[1]
    async with aiohttp.ClientSession() as s:
        try:
            async with s.get(f"http://127.0.0.1:{port}/") as resp:
                got = (resp.status, await resp.read())
        except Exception as e:  # noqa: BLE001
            got = repr(e)
    await runner.cleanup()
    print("aiohttp from", aiohttp.__file__, "| client received:", got)
    return 0 if got == (200, b"") else 1

sys.exit(asyncio.run(main()))
