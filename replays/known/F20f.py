"""F20f (C20.shutdown.body_of_the_request_in_progress_is_still_read): a handler is reading its request body when the graceful
shutdown starts (runner.cleanup() with shutdown_timeout=2).  The rest of the body arrives 0.2 s later - well inside the
shutdown timeout, during which 'requests already being handled may complete'.  RequestHandler.data_received returns at once
when _close (set by Server.pre_shutdown -> RequestHandler.close()) or _force_close (set first thing by
RequestHandler.shutdown()) is set, so the body bytes of the request IN PROGRESS are thrown away too: the handler never sees the
end of its body, sits out the whole timeout and is cancelled; the client gets no response.
Control: the same exchange without a shutdown is answered 200.
exit 1 = reproduces."""
import asyncio, sys, time
import aiohttp
from aiohttp import web


async def exchange(shutdown):
    seen = {}

    async def h(request):
        try:
            body = await request.read()
            seen["body"] = len(body)
            return web.Response(text="got %d" % len(body))
        except asyncio.CancelledError:
            seen["cancelled"] = True
            raise

    app = web.Application()
    app.router.add_post("/", h)
    runner = web.AppRunner(app, shutdown_timeout=2.0)
    await runner.setup()
    site = web.TCPSite(runner, "127.0.0.1", 0)
    await site.start()
    port = site._server.sockets[0].getsockname()[1]
    r, w = await asyncio.open_connection("127.0.0.1", port)
    w.write(b"POST / HTTP/1.1\r\nHost: x\r\nContent-Length: 10\r\n\r\n01234")
    await w.drain()
    await asyncio.sleep(0.2)          # the handler is now waiting for the other 5 bytes
    t0 = time.monotonic()
    cleanup = asyncio.ensure_future(runner.cleanup()) if shutdown else None
    await asyncio.sleep(0.2)
    w.write(b"56789")
    await w.drain()
    try:
        reply = await asyncio.wait_for(r.read(4096), 5)
    except Exception as e:  # noqa: BLE001
        reply = repr(e).encode()
    if cleanup is not None:
        await cleanup
    else:
        await runner.cleanup()
    w.close()
    return reply.split(b"\r\n")[0], seen, round(time.monotonic() - t0, 2)


async def main():
    ctl = await exchange(False)
    got = await exchange(True)
    print("aiohttp from", aiohttp.__file__)
    print("  no shutdown      :", ctl)
    print("  during shutdown  :", got)
    ok = got[0].startswith(b"HTTP/1.1 200") and got[1].get("body") == 10
    return 0 if ok else 1


sys.exit(asyncio.run(main()))
