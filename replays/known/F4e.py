"""F4e (C04.frame.update_body.writer_agrees_with_headers): session.get(url, chunked=True) with a client middleware that calls
`await request.update_body(None)`: _update_body removed the Transfer-Encoding header and, for a bodiless GET, did not put it
back, while the writer still chunk-framed: the request head goes out without any framing header followed by '0\\r\\n\\r\\n',
which the server reads as the beginning of another request.  exit 1 = reproduces."""
import asyncio, sys
import aiohttp

async def main():
    seen = []

    async def serve(reader, writer):
        try:
            head = await reader.readuntil(b"\r\n\r\n")
            rest = b""
            try:
                rest = await asyncio.wait_for(reader.read(100), 0.5)
            except asyncio.TimeoutError:
                pass
            seen.append((head, rest))
            writer.write(b"HTTP/1.1 200 OK\r\nContent-Length: 2\r\nConnection: close\r\n\r\nok")
            await writer.drain()
        finally:
            writer.close()

    server = await asyncio.start_server(serve, "127.0.0.1", 0)
    port = server.sockets[0].getsockname()[1]

    async def mw(request, handler):
        await request.update_body(None)
        return await handler(request)

    async with aiohttp.ClientSession(middlewares=(mw,)) as s:
        try:
            async with s.get(f"http://127.0.0.1:{port}/", chunked=True) as r:
                await r.read()
        except Exception as e:  # noqa: BLE001
            print("client:", repr(e))
    server.close()
    head, rest = seen[0] if seen else (b"", b"")
    te = b"transfer-encoding: chunked" in head.lower()
    print("aiohttp from", aiohttp.__file__, "| Transfer-Encoding announced:", te, "| bytes after the request head:", rest)
    return 1 if (rest and not te) else 0

sys.exit(asyncio.run(main()))
