"""F18b (C18.sockread.wait_for_100_continue_is_timed): ClientTimeout(total=None, sock_read=0.5), POST with expect100=True to a peer
that reads the request head and never answers: the request writer waits for '100 Continue' with no read timer armed
(start_timeout() ran only after the body), so the request never times out.  exit 1 = still pending after 3 s."""
import asyncio, sys
import aiohttp

async def main():
    async def serve(reader, writer):
        await reader.readuntil(b"\r\n\r\n")
        await asyncio.sleep(30)

    server = await asyncio.start_server(serve, "127.0.0.1", 0)
    port = server.sockets[0].getsockname()[1]
    async with aiohttp.ClientSession(timeout=aiohttp.ClientTimeout(total=None, sock_read=0.5)) as s:
        async def go():
            async with s.post(f"http://127.0.0.1:{port}/", data=b"x" * 10, expect100=True) as r:
                return await r.read()
        task = asyncio.ensure_future(go())
        done, pending = await asyncio.wait([task], timeout=3)
        if pending:
            res = "still pending after 3 s (sock_read=0.5)"
            task.cancel()
            try:
                await task
            except BaseException:
                pass
        else:
            res = repr(task.exception())
    server.close()
    print("aiohttp from", aiohttp.__file__, "|", res)
    return 1 if res.startswith("still pending") else 0

sys.exit(asyncio.run(main()))
