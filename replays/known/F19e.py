"""F19e (C19.names.semicolons_round_trip, names with path separators): a form field named '/x' - FormData().add_field('/x', 'v') -
is written as  Content-Disposition: form-data; name="/x".  parse_content_disposition stripped leading '/' and '\\' from EVERY
quoted parameter value (a measure meant to keep file names from being absolute paths), so the field arrived as 'x'; a field
named '/' arrived with an empty name.
exit 1 = reproduces."""
import asyncio, sys
import aiohttp
from aiohttp import web


async def main():
    seen = {}

    async def h(request):
        data = await request.post()
        seen["fields"] = sorted(data.keys())
        return web.Response(text="ok")

    app = web.Application()
    app.router.add_post("/", h)
    runner = web.AppRunner(app)
    await runner.setup()
    site = web.TCPSite(runner, "127.0.0.1", 0)
    await site.start()
    port = site._server.sockets[0].getsockname()[1]
    fd = aiohttp.FormData()
    fd.add_field("/x", "one")
    fd.add_field("\\y", "two")
    fd.add_field("plain", "three", filename="/etc/passwd")
    async with aiohttp.ClientSession() as s:
        async with s.post(f"http://127.0.0.1:{port}/", data=fd) as r:
            status = r.status
    await runner.cleanup()
    print("aiohttp from", aiohttp.__file__)
    print("  fields sent: ['/x', '\\\\y', 'plain'] | status", status, "| fields the server read:", seen.get("fields"))
    return 0 if seen.get("fields") == sorted(["/x", "\\y", "plain"]) else 1


sys.exit(asyncio.run(main()))
