"""F20g (C20.conn.lost.running_handler_stays_within_reach_of_shutdown): AppRunner(shutdown_timeout=0.3), default
handler_cancellation=False.  A client sends a request to a handler that does not finish, then closes its socket.
RequestHandler.connection_lost unregisters the connection from the server and drops its reference to the handler task
(_task_handler = None) without cancelling it.  runner.cleanup() - Server.shutdown() iterates the registered connections -
no longer knows the handler: it returns after the timeout, the handler is NEVER cancelled and is still running afterwards
('cancelled at the latest after twice that timeout' fails for handlers whose client has gone).
exit 1 = reproduces."""
import asyncio, sys, time
import aiohttp
from aiohttp import web


async def main():
    state = {}
    started = asyncio.Event()

    async def hang(request):
        started.set()
        try:
            await asyncio.Event().wait()
        except asyncio.CancelledError:
            state["cancelled"] = True
            raise

    app = web.Application()
    app.router.add_get("/", hang)
    r = web.AppRunner(app, shutdown_timeout=0.3)
    await r.setup()
    s = web.TCPSite(r, "127.0.0.1", 0)
    await s.start()
    port = s._server.sockets[0].getsockname()[1]
    rd, w = await asyncio.open_connection("127.0.0.1", port)
    w.write(b"GET / HTTP/1.1\r\nHost: x\r\n\r\n")
    await w.drain()
    await started.wait()
    w.close()                     # the client goes away while the handler runs
    await asyncio.sleep(0.2)
    t0 = time.monotonic()
    await r.cleanup()
    took = round(time.monotonic() - t0, 2)
    await asyncio.sleep(1.0)      # well beyond twice the shutdown timeout
    alive = [t.get_coro().__qualname__ for t in asyncio.all_tasks() if t is not asyncio.current_task()]
    print("aiohttp from", aiohttp.__file__)
    print("  cleanup() took", took, "s | handler cancelled:", bool(state.get("cancelled")))
    print("  tasks still alive 1 s after cleanup():", alive)
    bad = not state.get("cancelled")
    for t in asyncio.all_tasks():
        if t is not asyncio.current_task():
            t.cancel()
    return 1 if bad else 0


sys.exit(asyncio.run(main()))
