"""F17a (C17.oneshot.cookies_not_in_the_session_jar): aiohttp.request("GET", "http://127.0.0.1:PA/a", cookies={"secret": "s3"})
where /a redirects (302) to another origin (other port): the one-shot API put the caller's cookies into the temporary
session's jar - domain-less shared cookies - so they are attached to the redirected request at the other origin.
session.get(..., cookies=...) confines them.  exit 1 = the other origin received the cookie."""
import asyncio, sys
import aiohttp
from aiohttp import web

async def main():
    got = {}

    async def b(request):
        got["cookie_at_B"] = request.headers.get("Cookie")
        return web.Response(text="b")

    app_b = web.Application()
    app_b.router.add_get("/b", b)
    rb = web.AppRunner(app_b)
    await rb.setup()
    sb = web.TCPSite(rb, "127.0.0.1", 0)
    await sb.start()
    pb = sb._server.sockets[0].getsockname()[1]

    async def a(request):
        got["cookie_at_A"] = request.headers.get("Cookie")
        raise web.HTTPFound(f"http://127.0.0.1:{pb}/b")

    app_a = web.Application()
    app_a.router.add_get("/a", a)
    ra = web.AppRunner(app_a)
    await ra.setup()
    sa = web.TCPSite(ra, "127.0.0.1", 0)
    await sa.start()
    pa = sa._server.sockets[0].getsockname()[1]

    async with aiohttp.request("GET", f"http://127.0.0.1:{pa}/a", cookies={"secret": "s3"}) as r:
        await r.read()
    await ra.cleanup()
    await rb.cleanup()
    print("aiohttp from", aiohttp.__file__, "|", got)
    return 1 if got.get("cookie_at_B") else 0

sys.exit(asyncio.run(main()))
