"""F18c (C18.total.timer_listens_from_the_start): ClientTimeout(total=0.2) and an on_request_start trace callback that takes 0.4 s.
_request started the total-timeout clock (tm.start()) before awaiting the trace callbacks but registered the timer context
with it (tm.timer()) only afterwards: the deadline passed with nobody listening and was lost - the request then waits
for a server that answers after 5 s, with no TimeoutError.  exit 1 = no timeout within 2 s."""
import asyncio, sys, time
import aiohttp

async def main():
    async def serve(reader, writer):
        await reader.readuntil(b"\r\n\r\n")
        await asyncio.sleep(5)
        writer.write(b"HTTP/1.1 200 OK\r\nContent-Length: 2\r\n\r\nok")
        await writer.drain()

    server = await asyncio.start_server(serve, "127.0.0.1", 0)
    port = server.sockets[0].getsockname()[1]

    async def slow_hook(session, ctx, params):
        await asyncio.sleep(0.4)

    tc = aiohttp.TraceConfig()
    tc.on_request_start.append(slow_hook)
    t0 = time.monotonic()
    async with aiohttp.ClientSession(trace_configs=[tc], timeout=aiohttp.ClientTimeout(total=0.2)) as s:
        async def go():
            async with s.get(f"http://127.0.0.1:{port}/") as r:
                return await r.read()
        task = asyncio.ensure_future(go())
        done, pending = await asyncio.wait([task], timeout=2)
        if pending:
            res = "no timeout after 2 s (total=0.2)"
            task.cancel()
            try:
                await task
            except BaseException:
                pass
        else:
            res = f"{task.exception()!r} after {time.monotonic() - t0:.2f} s"
    server.close()
    print("aiohttp from", aiohttp.__file__, "|", res)
    return 1 if res.startswith("no timeout") else 0

sys.exit(asyncio.run(main()))
