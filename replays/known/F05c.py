"""F05c (C05.handle.error_response_starts_from_a_pristine_writer): a handler prepares a response of its own - web.Response with
enable_chunked_encoding(); await resp.prepare(request) - and then raises (HTTPNotFound, or any exception).  Nothing of the
prepared response was sent (its header block is only buffered, output_size == 0), so the server answers with an error
response through the SAME StreamWriter, whose `chunked` flag the discarded response had set: the 404 goes out as
'Content-Length: 4' followed by the chunk-framed body '4\\r\\nnope\\r\\n0\\r\\n\\r\\n' (14 bytes) on a keep-alive connection; the
surplus is read as the start of the next response.  Same for the 500 path.
exit 1 = reproduces."""
import asyncio, sys
import aiohttp
from aiohttp import web


async def main():
    async def h404(request):
        resp = web.Response(text="hello")
        resp.enable_chunked_encoding()
        await resp.prepare(request)
        raise web.HTTPNotFound(text="nope")

    async def h500(request):
        resp = web.Response(text="hello")
        resp.enable_chunked_encoding()
        await resp.prepare(request)
        raise RuntimeError("boom")

    app = web.Application()
    app.router.add_get("/404", h404)
    app.router.add_get("/500", h500)
    runner = web.AppRunner(app)
    await runner.setup()
    site = web.TCPSite(runner, "127.0.0.1", 0)
    await site.start()
    port = site._server.sockets[0].getsockname()[1]
    bad = []
    for path in ("/404", "/500"):
        r, w = await asyncio.open_connection("127.0.0.1", port)
        w.write(f"GET {path} HTTP/1.1\r\nHost: x\r\n\r\n".encode())
        await w.drain()
        try:
            data = await asyncio.wait_for(r.read(4096), 1.5)
        except asyncio.TimeoutError:
            data = b""
        w.close()
        head, _, body = data.partition(b"\r\n\r\n")
        cl = [int(l.split(b":")[1]) for l in head.split(b"\r\n") if l.lower().startswith(b"content-length")]
        print(f"  {path}: {head.split(chr(13).encode())[0].decode()} | Content-Length {cl} | body on the wire: {body!r}")
        if not cl or len(body) != cl[0]:
            bad.append(path)
    await runner.cleanup()
    print("aiohttp from", aiohttp.__file__, "| body length differs from Content-Length for:", bad or "nothing")
    return 1 if bad else 0


sys.exit(asyncio.run(main()))
