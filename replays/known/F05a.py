"""F05a (C05.handle.http_exception_response_only_if_nothing_sent): a handler that does
    resp = web.StreamResponse(); await resp.prepare(request); await resp.write(b"x" * 10); raise web.HTTPBadRequest()
gets a complete 'HTTP/1.1 400 Bad Request' response written into the middle of its unfinished chunked 200, and the
connection stays open: two responses for one request.  exit 1 = reproduces."""
import asyncio, sys
import aiohttp
from aiohttp import web

async def main():
    async def h(request):
        resp = web.StreamResponse()
        await resp.prepare(request)
        await resp.write(b"x" * 10)
        raise web.HTTPBadRequest()
    app = web.Application()
    app.router.add_get("/", h)
    runner = web.AppRunner(app)
    await runner.setup()
    site = web.TCPSite(runner, "127.0.0.1", 0)
    await site.start()
    port = site._server.sockets[0].getsockname()[1]
    r, w = await asyncio.open_connection("127.0.0.1", port)
    w.write(b"GET / HTTP/1.1\r\nHost: a\r\n\r\n")
    await w.drain()
    data = b""
    try:
        while True:
            chunk = await asyncio.wait_for(r.read(65536), 1)
            if not chunk:
                break
            data += chunk
    except asyncio.TimeoutError:
        pass
    w.close()
    await runner.cleanup()
    n = data.count(b"HTTP/1.1 ")
    print("aiohttp from", aiohttp.__file__, "| status lines on the wire for ONE request:", [l for l in data.split(b"\r\n") if l.startswith(b"HTTP/1.1 ")])
    return 1 if n > 1 else 0

sys.exit(asyncio.run(main()))
