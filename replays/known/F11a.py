"""F11a (C11.deflate.one_context_with_takeover): on a connection with negotiated permessage-deflate and context takeover a
message sent with a per-message `compress=` override is deflated by a fresh compressor; the receiver inflates everything
with one sliding window, which is then out of step: the NEXT message sent with the connection's compressor arrives as
different bytes (silent corruption).  exit 1 = defect reproduces."""
import asyncio, sys
import aiohttp
from aiohttp import web

async def handler(request):
    ws = web.WebSocketResponse(compress=True)
    await ws.prepare(request)
    a = "hello world hello world hello world " * 20
    await ws.send_str(a)
    await ws.send_str(a + "per-message", compress=15)
    await ws.send_str(a)
    await ws.send_str(a[::-1] + a)
    await ws.close()
    return ws

async def main():
    app = web.Application(); app.router.add_get("/ws", handler)
    runner = web.AppRunner(app); await runner.setup()
    site = web.TCPSite(runner, "127.0.0.1", 0); await site.start()
    port = site._server.sockets[0].getsockname()[1]
    a = "hello world hello world hello world " * 20
    want = [a, a + "per-message", a, a[::-1] + a]
    got = []
    async with aiohttp.ClientSession() as s:
        async with s.ws_connect(f"http://127.0.0.1:{port}/ws", compress=15) as ws:
            print("negotiated compress:", ws.compress)
            async for msg in ws:
                if msg.type == aiohttp.WSMsgType.TEXT: got.append(msg.data)
                else: got.append((msg.type, str(msg.data)[:80])); break
    await runner.cleanup()
    ok = got == want
    print("round trip ok:", ok, [ (g[:20] if isinstance(g,str) else g) for g in got])
    return 0 if ok else 1
sys.exit(asyncio.run(main()))
