"""F12d (C12.flow.pause_needs_a_consumer): one 40000-byte binary frame that arrives in 2-byte segments.  After 16385
fragments of the unfinished frame the reader pauses the transport ('too many fragments') although its message queue is
empty; reading is only ever resumed when a consumer takes a message from the queue, so the rest of the frame is never
read: the message and everything behind it never arrive.  exit 1 = the reader is left paused with an empty queue."""
import asyncio, sys
import aiohttp
from aiohttp._websocket.reader import WebSocketDataQueue
from aiohttp._websocket.reader_py import WebSocketReader
from aiohttp.base_protocol import BaseProtocol

class T(asyncio.Transport):
    def __init__(self):
        super().__init__()
        self.paused = False
    def pause_reading(self):
        self.paused = True
    def resume_reading(self):
        self.paused = False
    def is_closing(self):
        return False

async def main():
    loop = asyncio.get_running_loop()
    proto = BaseProtocol(loop)
    tr = T()
    proto.connection_made(tr)
    proto._upgraded = True  # a websocket connection: the HTTP parser is out of the picture
    q = WebSocketDataQueue(proto, 2 ** 16, loop=loop)
    r = WebSocketReader(q, 4 * 2 ** 20, False, False)
    n = 40000
    frame = bytes([0x82, 126]) + n.to_bytes(2, "big") + b"x" * n
    fed = 0
    for i in range(0, len(frame), 2):
        if tr.paused:
            break  # a transport that honours pause_reading() delivers nothing more
        r.feed_data(frame[i:i + 2])
        fed = i + 2
    stuck = tr.paused and not q._buffer and fed < len(frame)
    print("aiohttp from", aiohttp.__file__, f"| fed {fed} of {len(frame)} bytes; transport paused: {tr.paused}; "
          f"messages queued: {len(q._buffer)}; a consumer blocked in read() would wait forever: {stuck}")
    return 1 if stuck else 0

sys.exit(asyncio.run(main()))
