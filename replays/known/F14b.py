"""F14b (C14.index.unindex_only_indexed): root.add_subapp('/api', mid) where `mid` contains mid.add_domain(...) raised
KeyError: the prefix change tried to un-index the domain sub-app resource, which is never indexed.  exit 1 = reproduces."""
import asyncio, sys
import aiohttp
from aiohttp import web
from aiohttp.test_utils import make_mocked_request

async def h(r):
    return web.Response(text="ok")

async def main():
    inner = web.Application(); inner.router.add_get("/x", h)
    mid = web.Application(); mid.add_domain("example.com", inner)
    root = web.Application()
    try:
        root.add_subapp("/api", mid)
    except KeyError as e:
        print("aiohttp from", aiohttp.__file__, "add_subapp raised KeyError", e); return 1
    mi = await root.router.resolve(make_mocked_request("GET", "/api/x", headers={"Host": "example.com"}))
    print("aiohttp from", aiohttp.__file__, "resolve ->", mi.http_exception or "match")
    return 0 if mi.http_exception is None else 1

sys.exit(asyncio.run(main()))
