"""F16d (C16.accept.expires_applies_when_max_age_is_absent_or_invalid): 'Set-Cookie: a=1; Max-Age=abc; Expires=<date in the past>'.
RFC 6265 ignores the invalid Max-Age, so the Expires date applies and the cookie is expired at once; the jar blanked
the Max-Age but skipped Expires (`elif`), kept the cookie without any deadline and sent it indefinitely.
exit 1 = the cookie is attached to a request after its Expires date."""
import sys
from http.cookies import SimpleCookie
import aiohttp
from aiohttp import CookieJar
from yarl import URL

jar = CookieJar()
c = SimpleCookie()
c.load("a=1; Max-Age=abc; Expires=Tue, 01 Jan 1980 12:00:00 GMT")
jar.update_cookies(c, URL("http://example.com/"))
sent = jar.filter_cookies(URL("http://example.com/"))
print("aiohttp from", aiohttp.__file__, "| cookies attached after the Expires date:", sorted(sent.keys()))
sys.exit(1 if "a" in sent else 0)
