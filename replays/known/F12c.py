"""F12c (C12.handle.close.code_valid): close code 1006 must not appear in a Close frame (RFC 6455 7.4.1); the reader
must answer it with 1002.  exit 1 = defect reproduces (1006 accepted)."""
import sys
from unittest import mock
import aiohttp
from aiohttp._websocket.reader_py import WebSocketReader, WebSocketDataQueue
proto = mock.Mock(_reading_paused=False)
q = WebSocketDataQueue(proto, 2**16, loop=mock.Mock())
r = WebSocketReader(q, 0, compress=False, decode_text=True)
err, _ = r.feed_data(bytes([0x88, 2]) + (1006).to_bytes(2, "big"))
print("aiohttp from", aiohttp.__file__, "error:", err, "delivered:", list(q._buffer))
sys.exit(0 if err else 1)
