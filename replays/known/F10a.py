"""F10a (C10.escape.parse_message): a malformed request target must yield an HTTP protocol error (-> 400), not a
ValueError from yarl escaping the parser.  exit 1 = defect reproduces."""
import sys, asyncio
from unittest import mock
import aiohttp
from aiohttp.http_parser import HttpRequestParserPy
from aiohttp.http_exceptions import HttpProcessingError
bad = 0
for target in (b"http://[::1", b"http://a:99999999/", ):
    p = HttpRequestParserPy(mock.Mock(), mock.Mock(), 2**16)
    try:
        p.feed_data(b"GET " + target + b" HTTP/1.1\r\nHost: a\r\n\r\n")
        print(target, "-> accepted")
    except HttpProcessingError as e:
        print(target, "-> HttpProcessingError", type(e).__name__)
    except Exception as e:
        bad += 1; print(target, "-> ESCAPED", type(e).__name__, e)
p = HttpRequestParserPy(mock.Mock(), mock.Mock(), 2**16)
try:
    p.feed_data(b"CONNECT a:b HTTP/1.1\r\nHost: a\r\n\r\n"); print("CONNECT a:b -> accepted")
except HttpProcessingError as e:
    print("CONNECT a:b -> HttpProcessingError", type(e).__name__)
except Exception as e:
    bad += 1; print("CONNECT a:b -> ESCAPED", type(e).__name__, e)
print("aiohttp from", aiohttp.__file__)
sys.exit(1 if bad else 0)
