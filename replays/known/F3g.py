"""F3g (C03.restart.chunk_eof.nothing_of_the_terminator_consumed): the lax (response) chunked parser drops one CR in front
of the line end after chunk data - and forgot that it had done so when the read ended right there.  `abc CR CR LF` is refused
in one read ("expected CRLF after chunk data") and accepted when the read boundary falls between the two CRs.
exit 1 = reproduces."""
import asyncio, sys
import aiohttp
from aiohttp.http_parser import HttpResponseParserPy

class P:
    _reading_paused = False
    def pause_reading(self): pass
    def resume_reading(self, **kw): pass

loop = asyncio.new_event_loop()
def run(chunks):
    p = HttpResponseParserPy(P(), loop, 65536, max_line_size=8190, max_field_size=8190)
    out = []
    try:
        for c in chunks:
            msgs, up, tail = p.feed_data(c)
            out += [pl for m, pl in msgs]
        if out and out[0].exception() is not None:
            return "payload error " + type(out[0].exception()).__name__
        return "accepted" if out and out[0].is_eof() else "incomplete"
    except Exception as e:
        return type(e).__name__
bad = []
for term in (b"\r\r\n", b"\r\r\r\n", b"\r\n", b"\n"):
    s = b"HTTP/1.1 200 OK\r\nTransfer-Encoding: chunked\r\n\r\n3\r\nabc" + term + b"0\r\n\r\n"
    whole = run([s])
    for i in range(1, len(s)):
        cut = run([s[:i], s[i:]])
        if cut != whole: bad.append((term, i, whole, cut))
    one = run([s[i:i + 1] for i in range(len(s))])
    if one != whole: bad.append((term, "bytewise", whole, one))
print("aiohttp from", aiohttp.__file__, "segmentation-dependent outcomes:", bad)
sys.exit(1 if bad else 0)
