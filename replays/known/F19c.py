"""F19c (C19.align.whole_quartets_unless_last): a multipart/mixed part with Content-Transfer-Encoding: base64, written by aiohttp's
own MultipartWriter, is posted to a handler that streams it with `part.decode(await part.read_chunk())` (every chunk decoded on
its own - what read_chunk() aligns base64 chunks for).  Sent in one piece the upload arrives intact; sent in 3-byte TCP segments (any segmentation
that makes a read return fewer than four base64 characters) BodyPartReader._align_base64_chunk hands the short chunk back
mid-quartet ('no whole quartet to hand back') and the per-chunk decode fails: binascii.Error -> 500.
exit 1 = reproduces."""
import asyncio, sys
import aiohttp
from aiohttp import web

CONTENT = bytes(range(256)) * 3


async def build_body():
    w = aiohttp.MultipartWriter("mixed", boundary="BB")
    p = w.append(CONTENT, {"Content-Type": "application/octet-stream", "Content-Transfer-Encoding": "base64"})
    p.set_content_disposition("form-data", name="f", filename="f.bin")
    buf = bytearray()

    class W:
        async def write(self, d):
            buf.extend(d)

    await w.write(W())
    return bytes(buf), w.headers["Content-Type"]


async def exchange(port, body, ctype, seg):
    r, w = await asyncio.open_connection("127.0.0.1", port)
    w.write(b"POST / HTTP/1.1\r\nHost: x\r\nConnection: close\r\nContent-Type: " + ctype.encode()
            + b"\r\nContent-Length: %d\r\n\r\n" % len(body))
    await w.drain()
    await asyncio.sleep(0.05)
    for i in range(0, len(body), seg):
        w.write(body[i:i + seg])
        await w.drain()
        if seg < 100:
            await asyncio.sleep(0)
            await asyncio.sleep(0.0005)
    reply = await asyncio.wait_for(r.read(), 20)
    w.close()
    return reply.split(b"\r\n")[0], reply.split(b"\r\n\r\n", 1)[-1][:60]


async def main():
    async def h(request):
        reader = await request.multipart()
        part = await reader.next()
        got = bytearray()
        while not part.at_eof():
            got += part.decode(await part.read_chunk())
        got = bytes(got)
        return web.Response(text="same" if got == CONTENT else "DIFFERENT (%d bytes)" % len(got))

    app = web.Application()
    app.router.add_post("/", h)
    runner = web.AppRunner(app)
    await runner.setup()
    site = web.TCPSite(runner, "127.0.0.1", 0)
    await site.start()
    port = site._server.sockets[0].getsockname()[1]
    body, ctype = await build_body()
    whole = await exchange(port, body, ctype, len(body))
    small = await exchange(port, body, ctype, 3)
    await runner.cleanup()
    print("aiohttp from", aiohttp.__file__)
    print("  one segment     :", whole)
    print("  3-byte segments :", small)
    ok = whole == small == (b"HTTP/1.1 200 OK", b"same")
    return 0 if ok else 1


sys.exit(asyncio.run(main()))
