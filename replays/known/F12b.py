"""F12b (C12.handle.no_interleave): a new TEXT/BINARY frame while a fragmented message is in progress must end the
stream with 1002 (RFC 6455 5.4).  exit 1 = defect reproduces (frames accepted), 0 = rejected."""
import sys, asyncio
from unittest import mock
import aiohttp
from aiohttp._websocket.reader_py import WebSocketReader, WebSocketDataQueue
def run(frames):
    proto = mock.Mock(_reading_paused=False)
    q = WebSocketDataQueue(proto, 2**16, loop=mock.Mock())
    r = WebSocketReader(q, 0, compress=False, decode_text=True)
    err = False
    for f in frames:
        e, _ = r.feed_data(f); err = err or e
    return err, q.exception(), [ (m.type.name, m.data) for m in q._buffer ]
# TEXT(fin=0,"a") TEXT(fin=0,"b") CONT(fin=1,"c")
a = run([bytes([0x01,1])+b"a", bytes([0x01,1])+b"b", bytes([0x80,1])+b"c"])
# TEXT(fin=0,"") TEXT(fin=1,"x")   (empty first fragment, then a complete TEXT frame)
b = run([bytes([0x01,0]), bytes([0x81,1])+b"x"])
print("aiohttp from", aiohttp.__file__); print("non-fin interleave:", a); print("empty-first-fragment interleave:", b)
sys.exit(1 if (not a[0] or not b[0]) else 0)
