"""F4c (C04.inj.serialize.exact_lines): with zero headers the pure-Python serializer emitted an extra CRLF
(status CRLF CRLF CRLF): the stray line break becomes the first bytes of the body / next message.
exit 1 = defect reproduces."""
import sys
from multidict import CIMultiDict
import aiohttp
from aiohttp.http_writer import _py_serialize_headers
out = _py_serialize_headers("HTTP/1.1 200 OK", CIMultiDict())
print("aiohttp from", aiohttp.__file__, repr(out))
sys.exit(0 if out == b"HTTP/1.1 200 OK\r\n\r\n" else 1)
