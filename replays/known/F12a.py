"""F12a (C12.accept): a message of exactly max_msg_size bytes must be accepted ("messages ABOVE max_msg_size" are rejected).
exit 1 = defect reproduces, 0 = not reproduced."""
import sys
from unittest import mock
import aiohttp
from aiohttp._websocket.reader_py import WebSocketReader, WebSocketDataQueue
import asyncio
loop = asyncio.new_event_loop()
proto = mock.Mock(_reading_paused=False)
q = WebSocketDataQueue(proto, 2**16, loop=loop)
r = WebSocketReader(q, 10, compress=False, decode_text=False)
frame = bytes([0x82, 10]) + b"0123456789"
err, _ = r.feed_data(frame)
print("aiohttp from", aiohttp.__file__, "error:", err, "exc:", q.exception())
sys.exit(1 if err else 0)
