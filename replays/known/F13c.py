"""F13c (C13.writer.closing_before_first_suspension): WebSocketWriter.close() set _closing only after awaiting the send of
the close frame; while that send was suspended in drain, a send_frame(TEXT) from another task was written behind the
close frame (wire opcodes [8, 1]).  exit 1 = defect reproduces."""
import asyncio, sys
from unittest import mock
import aiohttp
from aiohttp._websocket.writer import WebSocketWriter
from aiohttp.http_websocket import WSMsgType

async def main():
    loop = asyncio.get_running_loop()
    transport = mock.Mock(); transport.is_closing.return_value = False
    wire = []
    transport.write.side_effect = lambda b: wire.append(bytes(b))
    protocol = mock.Mock(); protocol._paused = True
    gate = loop.create_future()
    async def drain():
        await gate
    protocol._drain_helper = drain
    w = WebSocketWriter(protocol, transport, limit=1)       # every frame exceeds the limit -> send_frame drains
    t = asyncio.ensure_future(w.close(1000, b"bye"))
    await asyncio.sleep(0.01)                                 # close frame written, close() suspended in drain
    refused = False
    t2 = asyncio.ensure_future(w.send_frame(b"late", WSMsgType.TEXT))
    await asyncio.sleep(0.01)
    gate.set_result(None)
    await t
    try:
        await t2
    except Exception as e:
        refused = True
    ops = [b[0] & 0x0F for b in wire]
    print("aiohttp from", aiohttp.__file__, "opcodes on the wire:", ops, "late data frame refused:", refused)
    return 1 if ops[:2] == [8, 1] else 0

sys.exit(asyncio.run(main()))
