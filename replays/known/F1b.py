"""F1b (C01.reqline.target_no_ctl): 'GET /a<ctl>b HTTP/1.1' with ctl in NUL, HTAB, LF, VT, CR, DEL was accepted by the
pure-Python request parser and the control byte delivered to the application in message.path.  exit 1 = reproduces."""
import asyncio, sys
import aiohttp
from aiohttp.http_parser import HttpRequestParserPy

class P:
    _reading_paused = False
    def pause_reading(self): pass
    def resume_reading(self): pass

loop = asyncio.new_event_loop()
accepted = []
for ctl in (b"\x00", b"\t", b"\n", b"\x0b", b"\r", b"\x7f", b"\x1f"):
    p = HttpRequestParserPy(P(), loop, 65536)
    try:
        msgs, up, tail = p.feed_data(b"GET /a" + ctl + b"b HTTP/1.1\r\nHost: a\r\n\r\n")
        if msgs:
            accepted.append((ctl, msgs[0][0].path))
    except Exception as e:
        pass
print("aiohttp from", aiohttp.__file__, "accepted targets with control bytes:", accepted)
sys.exit(1 if accepted else 0)
