#!/bin/sh
# Build the overlay venv (python 3.12 = the repo's interpreter, plus z3/cvc5/crosshair from the offline wheelhouse).
set -e
cd "$(dirname "$0")"
if [ -x .venv/bin/python ] && .venv/bin/python -c "import z3, multidict, yarl" 2>/dev/null; then
  echo "overlay venv present"; exit 0
fi
rm -rf .venv
/venv/bin/python -m venv .venv
PIP_NO_INDEX=1 .venv/bin/pip install -q --no-index --find-links /opt/veriftools/wheels z3-solver cvc5 crosshair-tool deal icontract jsonschema
echo "import site; site.addsitedir('/venv/lib/python3.12/site-packages')" > .venv/lib/python3.12/site-packages/zz_repo_deps.pth
.venv/bin/python -c "import z3, multidict, yarl; print('overlay venv ok', z3.get_version_string())"
